#!/bin/sh
# Build the gosym engine offline from the module cache.
set -e
cd "$(dirname "$0")"
export GOFLAGS=-mod=mod GOPROXY=off GOSUMDB=off GOTOOLCHAIN=local
mkdir -p bin evidence out
(cd gosym && go build -o ../bin/gosym .)
echo "setup ok"
