#!/bin/bash
# crosscheck.sh [repo]: run every quick check with z3 4.8.12, z3 5.1.0 (z3-new)
# and cvc5 1.0.3 and compare verdict, path count and assertion count (the
# "diff the solvers once per encoding change" step).  Evidence files are
# restored afterwards (evidence must come from the registered commands).
cd "$(dirname "$0")/.." || exit 2
repo=${1:-/repo}
out=out/crosscheck.txt; : > $out
for p in ${PROPS:-C01 C04 C05 C06 C09 C14 C15 C16 C17 C20 C19 C18 C11 C12 C13 C08 C10 C03 C07 C02}; do
  ref=""
  for sv in z3 z3-new cvc5; do
    line=$(timeout 3000 ./bin/gosym check $p -solver $sv -repo $repo 2>&1 | tail -1)
    sig=$(echo "$line" | sed 's/ wall=.*//')
    echo "$p [$sv] $line" | tee -a $out
    if [ -z "$ref" ]; then ref="$sig"; elif [ "$ref" != "$sig" ]; then echo "DISAGREEMENT $p: '$ref' vs [$sv] '$sig'" | tee -a $out; fi
  done
done
git checkout -- evidence 2>/dev/null
grep -c DISAGREEMENT $out
