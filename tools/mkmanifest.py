#!/usr/bin/env python3
# Regenerates /verif/MANIFEST.json from the table below.
import json, os
root = os.path.dirname(os.path.dirname(os.path.abspath(__file__)))
props = [json.loads(l) for l in open(os.path.join(root, 'properties.jsonl'))]
TECH = "bounded symbolic execution of the real Go code (go/ssa -> SMT-LIB2 bit-vectors, z3): assertions decided by the solver for all symbolic inputs within stated bounds (threaded harnesses: scheduler decisions are explored up to a stated delay / preemption bound); counterexamples replayed natively"
claimed = {
 "C02": dict(text="Bounded symbolic verification: every path of the real parser/dispatch/reply pipeline for one generated member (all key subsets, symbolic value kinds, ids, codes) is decided by the solver against a spec-derived reference classifier; bounded by member/key-class bounds listed in the evidence.", ref="4 (C02)",
             note="encoding/json is a contract stub over opaque tokens; engine (gosym) correctness; bounds on batch size and map orders; see evidence.assumptions"),
 "C03": dict(text="Bounded symbolic run of the real server goroutines with the scheduler replaced by solver-visible decisions (delay-bounded), data (member kinds, gate order) symbolic; ordering oracle on a logical clock at quiescence.", ref="4 (C03), 2.7",
             note="sync/chan/context intrinsics; delay bound 2 (thorough 3), no preemption inside critical sections; 2 records in flight; the stop-with-queued-notifications scenario of the C08 harness is part of this check"),
 "C07": dict(text="Inductive single-step verification over the reservation table from an arbitrary invariant-satisfying state with symbolic ids: covers call histories of any length; data bounds only (<= 2 in flight (thorough 3), batch <= 2); the reservation is also asserted while the batch is in flight.", ref="4 (C07), 2.6",
             note="invariant 'reserved ids == in-flight calls' is the induction hypothesis; handlers atomic; json stub; context intrinsics"),
 "C12": dict(text="Bounded symbolic verification of header-framing length handling: Content-Length is a full 64-bit symbolic int, the runtime's makeslice limit is an explicit obligation; stream-level harnesses bound stream length.", ref="4 (C12), App. B",
             note="bufio.ReadString/io.ReadFull/io.CopyN redirected to line scripts in the size harness; allocations > 65536 elements pruned (stated)"),
 "C14": dict(text="Bounded symbolic verification of error classification through the real responses/encode/parse/deliver/wait pipeline for all int32 codes and every constructor, wrap depth bounded.", ref="4 (C14)",
             note="json stub; errors.Is/As engine re-implementation; fmt.Errorf %w model"),
 "C17": dict(text="Bounded symbolic verification of dispatch on symbolic method-name byte strings (all byte values, bounded length) against a reference split; reserved-prefix gate for both builtin settings.", ref="4 (C17)",
             note="name length bounds; sort.Strings / strings helpers are engine intrinsics"),
}
STEP = "inductive single-step verification from an arbitrary invariant-satisfying state (symbolic ids/counters): histories of any length; data bounds only"
claimed.update({
 "C15": dict(text="Bounded symbolic verification of handler.Check / FuncInfo.Wrap executed from source over an engine model of package reflect (go/types-backed; Value.Call runs the real function): accepted/rejected signature shapes, exactly-once call with the decoded argument or InvalidParams without a call, strictness, array-to-field mapping, pass-through of results; plus UnmarshalParams and arrayStub.translate.", ref="9.2 (C15)", note="function shapes are enumerated (9+8), params symbolic; reflect is modelled (gosym/reflect.go); json stub"),
 "C16": dict(text="Bounded symbolic verification of Positional (StructOf/FuncOf/MakeFunc through the reflect model, arity 2, symbolic params in array and object form), Args (decode/encode) and Obj (decode, every map order) at JSON-token level.", ref="9.2 (C16)", note="arity 2; reflect modelled; json stub; one harness runs two concurrent invocations with preemption bound 1"),
 "C18": dict(text="Bounded symbolic run of the real Bridge.ServeHTTP over a real server.Local (threads) with symbolic members/ids; response body parsed back and matched to the request's calls; two concurrent callers with identical ids.", ref="4 (C18)", note="<= 2 members (thorough 3); HTTP stack replaced by recorders; delay bound 2; thorough tier of the concurrent harness with preemption bound 1"),
 "C19": dict(text="Bounded symbolic verification of ParseQuery/ParseBasic value typing, totality and marshalability; the Getter's status mapping over a real Local; and a real Client over the real jhttp.Channel against a real Bridge through an in-process HTTPClient (results, body closing, no thread left after Close).", ref="4 (C19), 9.2", note="strconv/base64 via representative strings; ParseForm and http.NewRequest stubs; real net/http transport outside"),
 "C20": dict(text="Bounded symbolic run of the real Loop with real servers as engine threads over a scripted accepter; service/Finish accounting and return value asserted on every explored schedule.", ref="4 (C20)", note="<= 2 connections; delay bound 2 (thorough 3); NetAccepter run over a scripted in-memory net.Listener (real sockets outside)"),
 "C11": dict(text="Bounded symbolic round trip through the real Send, the real bufio.Reader (from source) and the real Recv for Split (symbolic / several split bytes) and Header framings under symbolic fragmentation, and through the Direct framing (engine channels); record bytes symbolic.", ref="4 (C11)", note="records <= 3 bytes (+ one long), 16-byte bufio buffer, listed chunk policies; RawJSON outside"),
 "C01": dict(text="Bounded symbolic run of the real dispatcher closure (handler goroutines as engine threads) with symbolic handler outcomes and ids; reply parsed back and compared per call.", ref="4 (C01)", note="batch <= 3; json stub; delay-bounded scheduler; the started-server harness of C03 and the filter step of C09 are part of this check"),
 "C04": dict(text=STEP + " - client pending set: matching by id text, id freshness, Batch order.", ref="4 (C04), 2.6", note="<= 2 pending in pre-state, Batch <= 3 (thorough 4); FormatInt as injective opaque token; json stub; plus two threaded NewClient runs over the public API"),
 "C05": dict(text=STEP + " - client completion exactly once, stop semantics, hooks; plus threaded NewClient runs (Close waits for callbacks; a Batch answered in separate records).", ref="4 (C05), 2.6", note="goroutine-leak clause only for the threads of the explored runs; delay bound 2; thorough with preemption bound 1 on the threaded runs"),
 "C06": dict(text="Options arithmetic for all 64-bit values by the solver; bounded threaded run of the dispatcher with the real semaphore source for limit in {1,2}: never above the limit, all slots used while requests wait, cancelled waiter never runs; a handler waiting in Callback keeps its slot; the rpc.serverInfo built-in waits for a slot.", ref="4 (C06)", note="limit <= 2 in the run (thorough 3); delay bound 2; thorough with preemption bound 1"),
 "C08": dict(text="Bounded symbolic run of a real started server through traffic, each stop cause, late records, WaitStatus and restart, with scheduler decisions explored up to the delay bound; any panic/deadlock/wrong status is a violation.", ref="4 (C08)", note="<= 1 call, <= 4 notifications, one two-member batch, 1 malformed, 1 late record; delay bound 2 (thorough 3)"),
 "C09": dict(text=STEP + " - outstanding callbacks: push gate, closed-connection check, reply matching, late replies dropped, context end, stop.", ref="4 (C09), 2.6", note="<= 2 outstanding callbacks (thorough 4), batch <= 2 (thorough 4); plus a threaded run with a callback awaited from a notification handler"),
 "C10": dict(text="Channel-discipline assertions (lock held by the calling thread at Send/Close, single Recv, single Close, record shape) evaluated inside the engine on every path and schedule of the threaded and step harnesses.", ref="4 (C10)", note="workloads of the listed harnesses; delay bound 2; the client harness in the thorough tier with preemption bound 1"),
 "C13": dict(text="Bounded symbolic round trip encoder -> parser over opaque JSON tokens (all values of each kind), producers executed on their real paths, ParseRequests vs reference classification.", ref="4 (C13)", note="encoding/json stub is the trusted base for what Marshal emits; name length bounds"),
})
checks = []
for p in props:
    pid = p['id']
    if pid not in claimed: continue
    c = claimed[pid]
    checks.append({
        "property_id": pid,
        "quick_cmd": f"./bin/gosym check {pid} --tier quick",
        "thorough_cmd": f"./bin/gosym check {pid} --tier thorough",
        "evidence_file": f"/verif/evidence/{pid}.json",
        "replay_cmd_template": "./bin/gosym replay {path}",
        "engine": "gosym",
        "level_claimed": {"category": "other", "text": c['text'], "design_ref": "DESIGN.md section " + c['ref']},
        "level_note": c['note'],
        "technique": TECH,
    })
na_reason = {}
not_app = [{"property_id": p['id'], "reason": na_reason.get(p['id'], "no check registered")} for p in props if p['id'] not in claimed]
m = {
 "version": 1,
 "setup_cmd": "./setup.sh",
 "hooks": {"guard": "verif", "enable": "harness files (build tag verif) are injected through go/packages Overlay (-tags=verif) and `go test -overlay`; nothing is written into /repo and /repo carries no hook commits",
           "baseline_off_cmd": "cd /repo && GOFLAGS=-mod=mod GOPROXY=off GOSUMDB=off GOTOOLCHAIN=local go test -vet=off -count=1 -timeout 25m ./...",
           "source_commits": [], "add_only": True},
 "engines": [{"name": "gosym", "path": "gosym", "serves_properties": sorted(claimed), "kind_free_text": "own SSA->SMT-LIB2 symbolic executor for Go (go/ssa interpreter with symbolic leaves, path forking, callee summarisation, delay-bounded thread scheduler), z3 back end over a pipe; native replay via go test -overlay"}],
 "checks": checks,
 "not_applicable": not_app,
 "notes": "Exit codes of every check: 0 held within bounds; 1 reproduced violation (VIOLATION line); 2 inconclusive (solver unknown/error, unwinding assertion, unreproduced counterexample, harness does not build). fix: commits in /repo are listed in known_findings.txt.",
}
json.dump(m, open(os.path.join(root, 'MANIFEST.json'), 'w'), indent=1)
print("claimed:", sorted(claimed), "not_applicable:", len(not_app))
