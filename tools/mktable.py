#!/usr/bin/env python3
"""mktable.py <evidence-dir> [<evidence-dir-thorough>]: markdown table of what each
check ran (harnesses, paths, solver queries, wall time) from the evidence files."""
import json, sys, glob, os
def load(d):
    out = {}
    for f in sorted(glob.glob(os.path.join(d, 'C*.json'))):
        e = json.load(open(f))
        out[e['property_id']] = e
    return out
q = load(sys.argv[1])
t = load(sys.argv[2]) if len(sys.argv) > 2 else {}
print('| id | harnesses (quick tier) | quick: paths / solver queries / wall | thorough: paths / wall |')
print('|---|---|---|---|')
for pid, e in q.items():
    c = e['coverage']
    hs = ', '.join('`%s`' % h['harness'].replace('Harness_', '') for h in c['harnesses'])
    paths = sum(h['paths'] for h in c['harnesses'])
    line = '| %s | %s | %d / %s / %.0f s |' % (pid, hs, paths, (lambda q: q['sat'] + q['unsat'] + q.get('unknown', 0) if isinstance(q, dict) else q)(c.get('solver_queries', 0)), e['wall_s'])
    if pid in t:
        ct = t[pid]['coverage']
        tp = sum(h['paths'] for h in ct['harnesses'])
        pre = sorted({h['harness'].replace('Harness_', '') for h in ct['harnesses'] if h.get('preemption_bound', 0) > 0})
        extra = (' (preemption bound 1: %s)' % ', '.join(pre)) if pre else ''
        line += ' %d / %.0f s%s |' % (tp, t[pid]['wall_s'], extra)
    else:
        line += ' |'
    print(line)
