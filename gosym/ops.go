package main

// Operators, conversions, slices, maps, strings, type assertions, builtins.

import (
	"math"
	"fmt"
	"go/constant"
	"go/token"
	"go/types"

	"golang.org/x/tools/go/ssa"
)

func constantStringValue(c *ssa.Const) string {
	if c.Value.Kind() == constant.String {
		return constant.StringVal(c.Value)
	}
	return c.Value.String()
}

func (th *Thread) unop(instr *ssa.UnOp, x Value) Value {
	st := th.st
	switch instr.Op {
	case token.MUL: // load
		p := x.(*Value)
		if p == nil {
			th.runtimePanic("nil pointer dereference", "invalid memory address or nil pointer dereference (load)")
		}
		v := *p
		if v == nil {
			st.abort("load of uninitialised slot in %s", instr.Parent())
		}
		return copyVal(v)
	case token.NOT:
		return mkNot(x.(*Term))
	case token.SUB:
		switch x := x.(type) {
		case *Term:
			return mkNeg(x)
		case *Float:
			if x.known {
				return &Float{known: true, f: -x.f}
			}
		}
		st.abort("unary minus on %T", x)
	case token.XOR:
		return mkBVNot(x.(*Term))
	case token.ARROW:
		v, ok := th.chanRecv(x)
		if instr.CommaOk {
			return Tuple{v, ok}
		}
		return v
	}
	st.abort("unsupported unary operator %v", instr.Op)
	return nil
}

func (th *Thread) binop(op token.Token, t types.Type, x, y Value) Value {
	st := th.st
	switch op {
	case token.EQL:
		return th.equals(x, y)
	case token.NEQ:
		return mkNot(th.equals(x, y))
	}
	switch xv := x.(type) {
	case *Term:
		yv := y.(*Term)
		signed := isSigned(t)
		if xv.sort == SBool {
			st.abort("binop %v on bool", op)
		}
		switch op {
		case token.ADD:
			return mkBin("bvadd", xv, yv)
		case token.SUB:
			return mkBin("bvsub", xv, yv)
		case token.MUL:
			return mkBin("bvmul", xv, yv)
		case token.QUO, token.REM:
			z := mkEq(yv, mkBV(yv.sort, 0))
			if st.branch(z, "div-by-zero") {
				th.runtimePanic("integer divide by zero", "integer divide by zero")
			}
			if op == token.QUO {
				if signed {
					return mkBin("bvsdiv", xv, yv)
				}
				return mkBin("bvudiv", xv, yv)
			}
			if signed {
				return mkBin("bvsrem", xv, yv)
			}
			return mkBin("bvurem", xv, yv)
		case token.AND:
			return mkBin("bvand", xv, yv)
		case token.OR:
			return mkBin("bvor", xv, yv)
		case token.XOR:
			return mkBin("bvxor", xv, yv)
		case token.AND_NOT:
			return mkBin("bvand", xv, mkBVNot(yv))
		case token.SHL, token.SHR:
			// the shift count may have a different width; Go: count >= width gives 0 / sign
			cnt := yv
			if cnt.sort != xv.sort {
				if cnt.sort > xv.sort {
					// saturate: if any high bit set the count is "large"
					big := mkCmp("bvuge", cnt, mkBV(cnt.sort, uint64(xv.sort)))
					low := mkExtract(cnt, int(xv.sort)-1, 0)
					cnt = mkIte(big, mkBV(xv.sort, uint64(xv.sort)), low)
				} else {
					cnt = mkZext(cnt, xv.sort)
				}
			}
			if op == token.SHL {
				return mkBin("bvshl", xv, cnt)
			}
			if signed {
				return mkBin("bvashr", xv, cnt)
			}
			return mkBin("bvlshr", xv, cnt)
		case token.LSS:
			if signed {
				return mkCmp("bvslt", xv, yv)
			}
			return mkCmp("bvult", xv, yv)
		case token.LEQ:
			if signed {
				return mkCmp("bvsle", xv, yv)
			}
			return mkCmp("bvule", xv, yv)
		case token.GTR:
			if signed {
				return mkCmp("bvsgt", xv, yv)
			}
			return mkCmp("bvugt", xv, yv)
		case token.GEQ:
			if signed {
				return mkCmp("bvsge", xv, yv)
			}
			return mkCmp("bvuge", xv, yv)
		}
	case *StrVal:
		yv := y.(*StrVal)
		switch op {
		case token.ADD:
			e := make([]Value, 0, len(xv.e)+len(yv.e))
			e = append(e, xv.e...)
			e = append(e, yv.e...)
			return &StrVal{e: e}
		case token.LSS, token.LEQ, token.GTR, token.GEQ:
			return th.strCompare(op, xv, yv)
		}
	case *Float:
		yv := y.(*Float)
		if xv.known && yv.known {
			switch op {
			case token.ADD:
				return &Float{known: true, f: xv.f + yv.f}
			case token.SUB:
				return &Float{known: true, f: xv.f - yv.f}
			case token.MUL:
				return &Float{known: true, f: xv.f * yv.f}
			case token.QUO:
				return &Float{known: true, f: xv.f / yv.f}
			case token.LSS:
				return mkBool(xv.f < yv.f)
			case token.LEQ:
				return mkBool(xv.f <= yv.f)
			case token.GTR:
				return mkBool(xv.f > yv.f)
			case token.GEQ:
				return mkBool(xv.f >= yv.f)
			}
		}
		// a float known only by its class (finite / +Inf / -Inf / NaN) against
		// a bound that separates the classes
		if !xv.known && xv.class != nil && yv.known {
			cls := func(ids ...uint64) Value {
				r := tFalse
				for _, id := range ids {
					r = mkOr(r, mkEq(xv.class, mkBV(8, id)))
				}
				return r
			}
			hi := yv.f >= math.MaxFloat64 && !math.IsInf(yv.f, 1) // MaxFloat64 itself
			lo := yv.f <= -math.MaxFloat64 && !math.IsInf(yv.f, -1)
			switch {
			case op == token.LEQ && hi, op == token.LSS && math.IsInf(yv.f, 1):
				return cls(0, 2)
			case op == token.GTR && hi, op == token.GEQ && math.IsInf(yv.f, 1):
				return cls(1)
			case op == token.GEQ && lo, op == token.GTR && math.IsInf(yv.f, -1):
				return cls(0, 1)
			case op == token.LSS && lo, op == token.LEQ && math.IsInf(yv.f, -1):
				return cls(2)
			case op == token.LEQ && math.IsInf(yv.f, 1), op == token.GEQ && math.IsInf(yv.f, -1):
				return cls(0, 1, 2)
			}
		}
	}
	st.abort("unsupported binary operator %v on %T,%T", op, x, y)
	return nil
}

// strCompare orders two strings of constant bytes only.
func (th *Thread) strCompare(op token.Token, x, y *StrVal) Value {
	a, ok1 := x.goString()
	b, ok2 := y.goString()
	if !ok1 || !ok2 {
		// symbolic lexicographic comparison over bytes (no tokens)
		if x.hasToken() || y.hasToken() {
			th.st.abort("ordering comparison of opaque strings")
		}
		lt := th.lexLess(x, y, 0)
		eq := th.strEq(x, y)
		switch op {
		case token.LSS:
			return lt
		case token.LEQ:
			return mkOr(lt, eq)
		case token.GTR:
			return mkNot(mkOr(lt, eq))
		default:
			return mkNot(lt)
		}
	}
	switch op {
	case token.LSS:
		return mkBool(a < b)
	case token.LEQ:
		return mkBool(a <= b)
	case token.GTR:
		return mkBool(a > b)
	}
	return mkBool(a >= b)
}

func (th *Thread) lexLess(x, y *StrVal, i int) *Term {
	if i >= len(y.e) {
		return tFalse
	}
	if i >= len(x.e) {
		return tTrue // x is a proper prefix of y
	}
	a, b := x.e[i].(*Term), y.e[i].(*Term)
	return mkOr(mkCmp("bvult", a, b), mkAnd(mkEq(a, b), th.lexLess(x, y, i+1)))
}

// ---- equality ---------------------------------------------------------------

func (th *Thread) equals(x, y Value) *Term {
	st := th.st
	switch xv := x.(type) {
	case *Term:
		return mkEq(xv, y.(*Term))
	case *StrVal:
		return th.strEq(xv, y.(*StrVal))
	case *Value:
		return mkBool(xv == y.(*Value))
	case Iface:
		yv := y.(Iface)
		if xv.t == nil || yv.t == nil {
			return mkBool(xv.t == nil && yv.t == nil)
		}
		if !types.Identical(xv.t, yv.t) {
			return tFalse
		}
		if !types.Comparable(xv.t) {
			th.runtimePanic("comparing uncomparable", "comparing uncomparable type %s", xv.t)
		}
		return th.equals(xv.v, yv.v)
	case Struct:
		yv := y.(Struct)
		r := tTrue
		for i := range xv {
			r = mkAnd(r, th.equals(xv[i], yv[i]))
		}
		return r
	case Array:
		yv := y.(Array)
		r := tTrue
		for i := range xv {
			r = mkAnd(r, th.equals(xv[i], yv[i]))
		}
		return r
	case *MapVal:
		return mkBool(xv == y.(*MapVal))
	case *ChanVal:
		return mkBool(xv == y.(*ChanVal))
	case Slice:
		yv := y.(Slice)
		if xv.isNil() || yv.isNil() { // comparison with nil only
			return mkBool(xv.isNil() && yv.isNil())
		}
	case NilFunc:
		_, ok := y.(NilFunc)
		return mkBool(ok)
	case *Closure:
		if _, ok := y.(NilFunc); ok {
			return tFalse
		}
	case *ssa.Function:
		if _, ok := y.(NilFunc); ok {
			return tFalse
		}
	case *Native:
		if _, ok := y.(NilFunc); ok {
			return tFalse
		}
	case *Float:
		yv := y.(*Float)
		if xv.known && yv.known {
			return mkBool(xv.f == yv.f)
		}
	case *Opaque:
		yv, ok := y.(*Opaque)
		if ok && xv.kind == "rtype" && yv.kind == "rtype" {
			return mkBool(types.Identical(xv.data.(types.Type), yv.data.(types.Type)))
		}
		return mkBool(ok && (xv == yv || (xv.kind == yv.kind && xv.data != nil && xv.data == yv.data)))
	}
	st.abort("equals: unsupported operands %T, %T", x, y)
	return nil
}

func (th *Thread) strEq(x, y *StrVal) *Term {
	if !x.hasToken() && !y.hasToken() {
		if len(x.e) != len(y.e) {
			return tFalse
		}
		r := tTrue
		for i := range x.e {
			r = mkAnd(r, mkEq(x.e[i].(*Term), y.e[i].(*Term)))
			if r.IsConst() && !r.Bool() {
				return tFalse
			}
		}
		return r
	}
	return th.ropeEq(x.e, y.e)
}

// ---- conversions --------------------------------------------------------------

func (th *Thread) conv(dst, src types.Type, x Value) Value {
	st := th.st
	ud, us := dst.Underlying(), src.Underlying()
	switch xv := x.(type) {
	case *Term:
		if ds, ok := sortOf(dst); ok && ds != SBool {
			if xv.sort == ds {
				return xv
			}
			if xv.sort > ds {
				return mkExtract(xv, int(ds)-1, 0)
			}
			if isSigned(src) {
				return mkSext(xv, ds)
			}
			return mkZext(xv, ds)
		}
		if isString(dst) { // string(rune)
			if xv.IsConst() {
				return concreteStr(string(rune(xv.Int())))
			}
			st.abort("string(symbolic rune)")
		}
		if isFloat(dst) {
			if xv.IsConst() {
				if isSigned(src) {
					return &Float{known: true, f: float64(xv.Int())}
				}
				return &Float{known: true, f: float64(xv.c)}
			}
			return &Float{class: mkBV(8, 0)}
		}
		if _, ok := ud.(*types.Pointer); ok {
			st.abort("int to pointer conversion")
		}
	case *StrVal:
		if isString(dst) {
			return xv
		}
		if sl, ok := ud.(*types.Slice); ok {
			if b, ok := sl.Elem().Underlying().(*types.Basic); ok && b.Kind() == types.Uint8 {
				a := make([]Value, len(xv.e))
				copy(a, xv.e)
				if a == nil {
					a = []Value{}
				}
				return Slice{a: a}
			}
			st.abort("string to []rune unsupported")
		}
	case Slice:
		if isString(dst) {
			e := make([]Value, len(xv.a))
			copy(e, xv.a)
			return &StrVal{e: e}
		}
		if _, ok := ud.(*types.Slice); ok {
			return xv
		}
	case *Float:
		if isFloat(dst) {
			return xv
		}
		if ds, ok := sortOf(dst); ok && xv.known {
			return mkInt(ds, int64(xv.f))
		}
	case *Value:
		if _, ok := ud.(*types.Pointer); ok {
			return xv
		}
		if b, ok := ud.(*types.Basic); ok && b.Kind() == types.UnsafePointer {
			return xv
		}
	}
	_ = us
	st.abort("unsupported conversion %v -> %v (%T)", src, dst, x)
	return nil
}

// ---- slices and indexing --------------------------------------------------------

func (th *Thread) concreteIndex(t *Term, what string) int {
	if t.IsConst() {
		return int(t.Int())
	}
	v := th.st.concretize(t, th.st.eng.cfg.MaxConcretize, what)
	return int(signExt(v, t.sort))
}

func hasWide(a []Value) bool {
	for _, x := range a {
		if _, ok := x.(*Token); ok {
			return true
		}
	}
	return false
}

func (th *Thread) makeSlice(instr *ssa.MakeSlice, ln, cp *Term) Value {
	st := th.st
	elem := instr.Type().Underlying().(*types.Slice).Elem()
	elemSize := st.eng.sizes.Sizeof(elem)
	if elemSize == 0 {
		elemSize = 1
	}
	// runtime checks of makeslice: 0 <= len <= cap, cap*size <= maxAlloc (2^48)
	maxAlloc := uint64(1) << 48
	limit := mkBV(64, maxAlloc/uint64(elemSize))
	bad := mkOr(mkCmp("bvslt", ln, mkBV(64, 0)), mkOr(mkCmp("bvsgt", ln, cp), mkCmp("bvugt", cp, limit)))
	if st.branch(bad, "makeslice") {
		th.runtimePanic("makeslice: len out of range", "makeslice: len out of range")
	}
	if !cp.IsConst() {
		if st.branch(mkCmp("bvugt", cp, mkBV(64, uint64(st.eng.cfg.MaxAlloc))), "makeslice-large") {
			st.end("pruned", "allocation larger than the engine bound %d (outside the claim)", st.eng.cfg.MaxAlloc)
		}
	}
	n := th.concreteIndex(ln, "makeslice len")
	c := th.concreteIndex(cp, "makeslice cap")
	if c > st.eng.cfg.MaxAlloc {
		st.end("pruned", "allocation of %d elements exceeds the engine bound %d", c, st.eng.cfg.MaxAlloc)
	}
	a := make([]Value, c)
	for i := range a {
		a[i] = zero(elem)
	}
	return Slice{a: a[:n]}
}

func (th *Thread) sliceOp(instr *ssa.Slice, x, lo, hi, max Value) Value {
	st := th.st
	idx := func(v Value, def int) int {
		if v == nil {
			return def
		}
		return th.concreteIndex(v.(*Term), "slice bound")
	}
	switch xv := x.(type) {
	case Slice:
		l := idx(lo, 0)
		h := idx(hi, len(xv.a))
		m := idx(max, cap(xv.a))
		if l < 0 || h < l || m < h || m > cap(xv.a) {
			th.runtimePanic("slice bounds out of range", "slice bounds out of range [%d:%d:%d] with capacity %d", l, h, m, cap(xv.a))
		}
		if xv.a == nil {
			return xv
		}
		if hasWide(xv.a[:len(xv.a)]) && !(l == 0 && h == len(xv.a)) {
			return Slice{a: th.ropeSlice(xv.a, l, h)}
		}
		return Slice{a: xv.a[l:h:m]}
	case *StrVal:
		l := idx(lo, 0)
		h := idx(hi, len(xv.e))
		if l < 0 || h < l || h > len(xv.e) {
			th.runtimePanic("slice bounds out of range", "slice bounds out of range [%d:%d] with length %d", l, h, len(xv.e))
		}
		if xv.hasToken() && !(l == 0 && h == len(xv.e)) {
			return &StrVal{e: th.ropeSlice(xv.e, l, h)}
		}
		return &StrVal{e: xv.e[l:h]}
	case *Value: // pointer to array
		if xv == nil {
			th.runtimePanic("nil pointer dereference", "slice of nil array pointer")
		}
		arr := (*xv).(Array)
		l := idx(lo, 0)
		h := idx(hi, len(arr))
		m := idx(max, len(arr))
		if l < 0 || h < l || m < h || m > len(arr) {
			th.runtimePanic("slice bounds out of range", "slice bounds out of range [%d:%d:%d] with capacity %d", l, h, m, len(arr))
		}
		return Slice{a: []Value(arr)[l:h:m]}
	}
	st.abort("slice of %T", x)
	return nil
}

func (th *Thread) indexAddr(x Value, idx *Term) Value {
	switch xv := x.(type) {
	case Slice:
		i := th.concreteIndex(idx, "index")
		if hasWide(xv.a) {
			return th.ropeIndexAddr(xv.a, i)
		}
		if i < 0 || i >= len(xv.a) {
			th.runtimePanic("index out of range", "index out of range [%d] with length %d", i, len(xv.a))
		}
		return &xv.a[i]
	case *Value:
		if xv == nil {
			th.runtimePanic("nil pointer dereference", "index of nil array pointer")
		}
		arr := (*xv).(Array)
		i := th.concreteIndex(idx, "index")
		if i < 0 || i >= len(arr) {
			th.runtimePanic("index out of range", "index out of range [%d] with length %d", i, len(arr))
		}
		return &arr[i]
	}
	th.st.abort("indexAddr of %T", x)
	return nil
}

func (th *Thread) index(x Value, idx *Term) Value {
	switch xv := x.(type) {
	case Array:
		i := th.concreteIndex(idx, "index")
		if i < 0 || i >= len(xv) {
			th.runtimePanic("index out of range", "index out of range [%d] with length %d", i, len(xv))
		}
		return copyVal(xv[i])
	case *StrVal:
		return th.strIndex(xv, idx)
	}
	th.st.abort("index of %T", x)
	return nil
}

func (th *Thread) strIndex(s *StrVal, idx *Term) Value {
	if s.hasToken() {
		return th.ropeIndex(s.e, idx)
	}
	i := th.concreteIndex(idx, "string index")
	if i < 0 || i >= len(s.e) {
		th.runtimePanic("index out of range", "index out of range [%d] with length %d", i, len(s.e))
	}
	return s.e[i]
}

// lenOf returns the Go len of a byte sequence that may contain tokens.
func (th *Thread) lenOf(e []Value) *Term {
	n := 0
	var sym *Term
	for _, x := range e {
		if tk, ok := x.(*Token); ok {
			l := th.tokLen(tk)
			if sym == nil {
				sym = l
			} else {
				sym = mkBin("bvadd", sym, l)
			}
		} else {
			n++
		}
	}
	if sym == nil {
		return mkBV(64, uint64(n))
	}
	return mkBin("bvadd", sym, mkBV(64, uint64(n)))
}

// ---- maps ---------------------------------------------------------------------

// mapFind returns the index of key in m, or -1; it forks when undecided.
func (th *Thread) mapFind(m *MapVal, key Value) int {
	if m == nil {
		return -1
	}
	n := len(m.keys)
	guards := make([]*Term, n+1)
	none := tTrue
	constIdx := -1
	anySym := false
	for i, k := range m.keys {
		e := th.equals(k, key)
		guards[i] = e
		if e.IsConst() {
			if e.Bool() {
				constIdx = i
			}
		} else {
			anySym = true
		}
		none = mkAnd(none, mkNot(e))
	}
	if constIdx >= 0 {
		return constIdx
	}
	if !anySym {
		return -1
	}
	guards[n] = none
	d := th.st.choose(n+1, guards, "map-key")
	if d == n {
		return -1
	}
	return d
}

func (th *Thread) lookup(instr *ssa.Lookup, x, key Value) Value {
	m, ok := x.(*MapVal)
	if !ok {
		th.st.abort("lookup on %T", x)
	}
	elemT := instr.X.Type().Underlying().(*types.Map).Elem()
	i := th.mapFind(m, key)
	var v Value
	if i >= 0 {
		v = copyVal(m.vals[i])
	} else {
		v = zero(elemT)
	}
	if instr.CommaOk {
		return Tuple{v, mkBool(i >= 0)}
	}
	return v
}

func (th *Thread) mapUpdate(x, key, val Value) {
	m := x.(*MapVal)
	if m == nil {
		th.runtimePanic("assignment to entry in nil map", "assignment to entry in nil map")
	}
	i := th.mapFind(m, key)
	if i >= 0 {
		m.vals[i] = copyVal(val)
		return
	}
	m.keys = append(m.keys, key)
	m.vals = append(m.vals, copyVal(val))
}

func (th *Thread) mapDelete(m *MapVal, key Value) {
	if m == nil {
		return
	}
	i := th.mapFind(m, key)
	if i < 0 {
		return
	}
	m.keys = append(append([]Value{}, m.keys[:i]...), m.keys[i+1:]...)
	m.vals = append(append([]Value{}, m.vals[:i]...), m.vals[i+1:]...)
}

func (th *Thread) rangeIter(x Value) Value {
	switch xv := x.(type) {
	case *MapVal:
		it := &MapIter{m: xv}
		if xv != nil {
			it.keys = append([]Value{}, xv.keys...)
			it.vals = append([]Value{}, xv.vals...)
			it.done = make([]bool, len(it.keys))
			it.left = len(it.keys)
		}
		return it
	case *StrVal:
		if xv.hasToken() {
			th.st.abort("range over opaque string")
		}
		return &MapIter{isStr: true, str: xv}
	}
	th.st.abort("range over %T", x)
	return nil
}

// iterNext advances a map or string iterator.  Map iteration order is a
// decision: every order is explored.
func (th *Thread) iterNext(it *MapIter, instr *ssa.Next) Value {
	if it.isStr {
		if it.pos >= len(it.str.e) {
			return Tuple{tFalse, mkBV(64, 0), mkBV(32, 0)}
		}
		b := it.str.e[it.pos].(*Term)
		i := it.pos
		it.pos++
		// bytes >= 0x80 would start a multi-byte rune: require ASCII here
		if b.IsConst() {
			if b.c >= 0x80 {
				th.st.abort("range over non-ASCII string")
			}
		} else {
			th.st.assume(mkCmp("bvult", b, mkBV(8, 0x80)))
			th.st.note("assumed ASCII in range-over-string")
		}
		return Tuple{tTrue, mkBV(64, uint64(i)), mkZext(b, 32)}
	}
	if it.left == 0 {
		return Tuple{tFalse, nil, nil}
	}
	// choose which of the remaining entries comes next
	var cand []int
	for i, d := range it.done {
		if !d {
			// skip entries deleted from the map since the snapshot
			cand = append(cand, i)
		}
	}
	pick := 0
	if len(cand) > 1 && th.st.eng.cfg.MapOrders && !th.st.mapOrdersOff {
		pick = th.st.choose(len(cand), nil, "map-order")
	}
	i := cand[pick]
	it.done[i] = true
	it.left--
	// entry may have been deleted during iteration: Go then does not produce it
	if th.mapFindExact(it.m, it.keys[i]) < 0 {
		return th.iterNext(it, instr)
	}
	return Tuple{tTrue, it.keys[i], copyVal(it.vals[i])}
}

// mapFindExact finds a key by identity of the stored key value (no forking).
func (th *Thread) mapFindExact(m *MapVal, key Value) int {
	for i, k := range m.keys {
		if e := th.equals(k, key); e.IsConst() && e.Bool() {
			return i
		}
	}
	return -1
}

// ---- type assertions -------------------------------------------------------------

func (th *Thread) typeAssert(instr *ssa.TypeAssert, x Iface) Value {
	ok := false
	var v Value
	if it, isIface := instr.AssertedType.Underlying().(*types.Interface); isIface {
		if x.t != nil && th.implements(x, it) {
			ok = true
			v = x
		}
	} else if x.t != nil && types.Identical(x.t, instr.AssertedType) {
		ok = true
		v = x.v
	}
	if instr.CommaOk {
		if !ok {
			v = zero(instr.AssertedType)
		}
		return Tuple{v, mkBool(ok)}
	}
	if !ok {
		th.runtimePanic("interface conversion", "interface conversion: %v is not %v", x.t, instr.AssertedType)
	}
	return v
}

func (th *Thread) implements(x Iface, it *types.Interface) bool {
	if o, ok := x.v.(*Opaque); ok && o.kind == "ctx" {
		return true
	}
	return types.Implements(x.t, it)
}

// ---- builtins -----------------------------------------------------------------------

func (th *Thread) callBuiltin(b *ssa.Builtin, args []Value) Value {
	st := th.st
	switch b.Name() {
	case "len":
		switch x := args[0].(type) {
		case *StrVal:
			return th.lenOf(x.e)
		case Slice:
			return th.lenOf(x.a)
		case *MapVal:
			if x == nil {
				return mkBV(64, 0)
			}
			return mkBV(64, uint64(len(x.keys)))
		case Array:
			return mkBV(64, uint64(len(x)))
		case *ChanVal:
			if x == nil {
				return mkBV(64, 0)
			}
			return mkBV(64, uint64(len(x.buf)))
		case *Value:
			return mkBV(64, uint64(len((*x).(Array))))
		}
	case "cap":
		switch x := args[0].(type) {
		case Slice:
			return mkBV(64, uint64(cap(x.a)))
		case Array:
			return mkBV(64, uint64(len(x)))
		case *ChanVal:
			if x == nil {
				return mkBV(64, 0)
			}
			return mkBV(64, uint64(x.cap))
		}
	case "append":
		s := args[0].(Slice)
		switch t := args[1].(type) {
		case Slice:
			if len(t.a) == 0 {
				return s
			}
			add := make([]Value, len(t.a))
			for i, x := range t.a {
				add[i] = copyVal(x)
			}
			return Slice{a: append(s.a, add...)}
		case *StrVal:
			if len(t.e) == 0 {
				return s
			}
			return Slice{a: append(s.a, t.e...)}
		}
	case "copy":
		dst := args[0].(Slice)
		var src []Value
		switch t := args[1].(type) {
		case Slice:
			src = t.a
		case *StrVal:
			src = t.e
		}
		if hasWide(src) || hasWide(dst.a) {
			st.abort("copy involving opaque tokens")
		}
		tmp := make([]Value, len(src))
		for i, x := range src {
			tmp[i] = copyVal(x)
		}
		n := copy(dst.a, tmp)
		return mkBV(64, uint64(n))
	case "delete":
		th.mapDelete(args[0].(*MapVal), args[1])
		return nil
	case "close":
		th.chanClose(args[0])
		return nil
	case "panic":
		panic(goPanic{v: args[0], kind: "explicit"})
	case "recover":
		if n := len(th.deferFrame); n > 0 {
			fr := th.deferFrame[n-1]
			if fr.panicking {
				fr.panicking = false
				return fr.panicVal.v
			}
		}
		return Iface{}
	case "print", "println":
		return nil
	case "min", "max":
		x, y := args[0].(*Term), args[1].(*Term)
		// signedness unknown here: builtin args share a type; use signed for ints
		lt := mkCmp("bvslt", x, y)
		if b.Name() == "min" {
			return mkIte(lt, x, y)
		}
		return mkIte(lt, y, x)
	case "clear":
		if m, ok := args[0].(*MapVal); ok && m != nil {
			m.keys, m.vals = nil, nil
		}
		return nil
	case "ssa:wrapnilchk":
		if isNilPtr(args[0]) {
			th.runtimePanic("nil pointer dereference", "value method called via nil pointer")
		}
		return args[0]
	}
	st.abort("unsupported builtin %s(%s)", b.Name(), fmt.Sprint(len(args)))
	return nil
}

func (st *State) note(s string) {
	for _, n := range st.notes {
		if n == s {
			return
		}
	}
	st.notes = append(st.notes, s)
}
