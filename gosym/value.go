package main

// Run-time values of the symbolic interpreter: concrete shape, symbolic leaves.

import (
	"fmt"
	"go/types"
	"strings"

	"golang.org/x/tools/go/ssa"
)

type Value interface{}

// scalars (bool, all integer kinds, uintptr, unsafe.Pointer-as-int): *Term

// StrVal is a Go string: a sequence of elements, each a byte (*Term of width 8)
// or an opaque JSON token (*Token) standing for one or more bytes.
type StrVal struct{ e []Value }

// Token is an opaque JSON value text.  Its attributes (kind, length, first four
// bytes) are uninterpreted functions of the identity pair (ns, v), so two
// tokens with the same identity agree on all of them.
type Token struct {
	ns, v *Term
	// optional decoded structure known to the engine
	str  *StrVal  // decoded content of a string token
	obj  []TokMem // members of an object token (in text order)
	arr  []*Token // elements of an array token
	kind int      // concrete kind when known (kNull..kObject), else -1
	errv *Term    // for numbers from Itoa/FormatInt: the integer (sort 64), else nil
	lit  string   // literal text when the engine knows it
	engine bool   // built by the engine: attributes are constants where known
	compact bool  // the compacted form (json.Marshal / json.Compact) of the token with the same identity
}

type TokMem struct {
	key *StrVal
	val *Token
}

const (
	kNull = iota
	kTrue
	kFalse
	kNumber
	kString
	kArray
	kObject
)

type Struct []Value
type Array []Value
type Tuple []Value

// Slice is a Go slice; a aliases the backing array exactly as in Go.
type Slice struct{ a []Value }

func (s Slice) isNil() bool { return s.a == nil }

type Iface struct {
	t types.Type // dynamic type; nil for the nil interface
	v Value
}

type Closure struct {
	fn  *ssa.Function
	env []Value
}

// Native is an engine-implemented function value (e.g. a context.CancelFunc).
type Native struct {
	name string
	fn   func(th *Thread, args []Value) Value
}

type NilFunc struct{}

type MapVal struct {
	keys []Value
	vals []Value
}

type MapIter struct {
	m     *MapVal
	str   *StrVal
	keys  []Value // snapshot, in chosen order so far
	vals  []Value
	done  []bool
	left  int
	pos   int
	isStr bool
}

type ChanVal struct {
	cap    int
	buf    []Value
	closed bool
	id     int
	elem   types.Type
	// rendezvous for unbuffered channels
	sendq []*chanWaiter
	recvq []*chanWaiter
}

type chanWaiter struct {
	th   *Thread
	val  Value
	done bool
	ok   bool
}

// Opaque is an engine object standing for a library value (reflect.Type ...)
type Opaque struct {
	kind string
	data interface{}
}

// Float is an abstract float64: concrete when known, otherwise a class.
type Float struct {
	known bool
	f     float64
	class *Term // symbolic class id (8 bits): 0 finite, 1 +Inf, 2 -Inf, 3 NaN
}

func isNilPtr(v Value) bool {
	p, ok := v.(*Value)
	return ok && p == nil
}

func concreteStr(s string) *StrVal {
	e := make([]Value, len(s))
	for i := 0; i < len(s); i++ {
		e[i] = mkBV(8, uint64(s[i]))
	}
	return &StrVal{e: e}
}

// goString returns the concrete Go string when every element is a constant byte.
func (s *StrVal) goString() (string, bool) {
	var sb strings.Builder
	for _, x := range s.e {
		t, ok := x.(*Term)
		if !ok || !t.IsConst() {
			return "", false
		}
		sb.WriteByte(byte(t.c))
	}
	return sb.String(), true
}

func (s *StrVal) hasToken() bool {
	for _, x := range s.e {
		if _, ok := x.(*Token); ok {
			return true
		}
	}
	return false
}

func (s *StrVal) String() string {
	if g, ok := s.goString(); ok {
		return fmt.Sprintf("%q", g)
	}
	var sb strings.Builder
	sb.WriteString("str[")
	for i, x := range s.e {
		if i > 0 {
			sb.WriteByte(' ')
		}
		switch x := x.(type) {
		case *Term:
			if x.IsConst() {
				fmt.Fprintf(&sb, "%q", rune(x.c))
			} else {
				sb.WriteString("?")
			}
		case *Token:
			sb.WriteString("TOK")
		}
	}
	sb.WriteString("]")
	return sb.String()
}

// copyVal copies aggregate values that have value semantics in Go.
func copyVal(v Value) Value {
	switch v := v.(type) {
	case Struct:
		n := make(Struct, len(v))
		for i, x := range v {
			n[i] = copyVal(x)
		}
		return n
	case Array:
		n := make(Array, len(v))
		for i, x := range v {
			n[i] = copyVal(x)
		}
		return n
	case Tuple:
		n := make(Tuple, len(v))
		for i, x := range v {
			n[i] = copyVal(x)
		}
		return n
	}
	return v
}

func sortOf(t types.Type) (Sort, bool) {
	b, ok := t.Underlying().(*types.Basic)
	if !ok {
		if _, isPtr := t.Underlying().(*types.Pointer); isPtr {
			return 0, false
		}
		return 0, false
	}
	switch b.Kind() {
	case types.Bool, types.UntypedBool:
		return SBool, true
	case types.Int8, types.Uint8:
		return 8, true
	case types.Int16, types.Uint16:
		return 16, true
	case types.Int32, types.Uint32, types.UntypedRune:
		return 32, true
	case types.Int, types.Uint, types.Int64, types.Uint64, types.Uintptr, types.UntypedInt:
		return 64, true
	}
	return 0, false
}

func isSigned(t types.Type) bool {
	b, ok := t.Underlying().(*types.Basic)
	return ok && b.Info()&types.IsUnsigned == 0
}

func isString(t types.Type) bool {
	b, ok := t.Underlying().(*types.Basic)
	return ok && b.Info()&types.IsString != 0
}

func isFloat(t types.Type) bool {
	b, ok := t.Underlying().(*types.Basic)
	return ok && b.Info()&types.IsFloat != 0
}

// zero returns the zero value of a type.
func zero(t types.Type) Value {
	switch u := t.Underlying().(type) {
	case *types.Basic:
		if u.Info()&types.IsString != 0 {
			return &StrVal{}
		}
		if u.Info()&types.IsFloat != 0 {
			return &Float{known: true}
		}
		if u.Kind() == types.UnsafePointer {
			return (*Value)(nil)
		}
		if u.Kind() == types.UntypedNil {
			return Iface{}
		}
		if s, ok := sortOf(t); ok {
			if s == SBool {
				return tFalse
			}
			return mkBV(s, 0)
		}
		if u.Info()&types.IsComplex != 0 {
			return &Float{known: true}
		}
		panic("zero: unsupported basic type " + t.String())
	case *types.Struct:
		s := make(Struct, u.NumFields())
		for i := range s {
			s[i] = zero(u.Field(i).Type())
		}
		return s
	case *types.Array:
		a := make(Array, int(u.Len()))
		for i := range a {
			a[i] = zero(u.Elem())
		}
		return a
	case *types.Pointer:
		return (*Value)(nil)
	case *types.Slice:
		return Slice{}
	case *types.Map:
		return (*MapVal)(nil)
	case *types.Chan:
		return (*ChanVal)(nil)
	case *types.Signature:
		return NilFunc{}
	case *types.Interface:
		return Iface{}
	case *types.Tuple:
		tp := make(Tuple, u.Len())
		for i := range tp {
			tp[i] = zero(u.At(i).Type())
		}
		return tp
	}
	panic("zero: unsupported type " + t.String())
}

func describe(v Value) string {
	switch v := v.(type) {
	case nil:
		return "<nil>"
	case *Term:
		if v.size > 12 {
			return "<term>"
		}
		return v.String()
	case *StrVal:
		return v.String()
	case Struct:
		return fmt.Sprintf("struct(%d)", len(v))
	case Slice:
		return fmt.Sprintf("slice(len=%d)", len(v.a))
	case Iface:
		if v.t == nil {
			return "iface(nil)"
		}
		return "iface(" + v.t.String() + ")"
	case *Value:
		if v == nil {
			return "nilptr"
		}
		return "ptr"
	}
	return fmt.Sprintf("%T", v)
}
