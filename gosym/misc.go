package main

// bytes.Buffer intrinsics, package initialisation, external globals, reflect.

import (
	"go/types"
	"strings"

	"golang.org/x/tools/go/ssa"
)

// bytes.Buffer layout: struct{ buf []byte; off int; lastRead readOp }
func bufFields(th *Thread, recv Value) Struct {
	p := recv.(*Value)
	if p == nil {
		th.runtimePanic("nil pointer dereference", "nil *bytes.Buffer")
	}
	return (*p).(Struct)
}

func registerBuffer(e *Engine) {
	reg := func(name string, f Intrinsic) { e.intrinsics[name] = f }
	contents := func(th *Thread, b Struct) []Value {
		off := int(b[1].(*Term).Int())
		return b[0].(Slice).a[off:]
	}
	write := func(th *Thread, b Struct, data []Value) {
		s := b[0].(Slice)
		add := make([]Value, len(data))
		copy(add, data)
		if s.a == nil {
			s.a = []Value{}
		}
		b[0] = Slice{a: append(s.a, add...)}
	}
	reg("bytes.NewBuffer", func(th *Thread, fn *ssa.Function, a []Value) Value {
		cell := new(Value)
		z := zero(mustDeref(fn.Signature.Results().At(0).Type())).(Struct)
		z[0] = a[0]
		*cell = z
		return cell
	})
	reg("bytes.NewBufferString", func(th *Thread, fn *ssa.Function, a []Value) Value {
		cell := new(Value)
		z := zero(mustDeref(fn.Signature.Results().At(0).Type())).(Struct)
		z[0] = Slice{a: append([]Value{}, a[0].(*StrVal).e...)}
		*cell = z
		return cell
	})
	reg("(*bytes.Buffer).WriteByte", func(th *Thread, fn *ssa.Function, a []Value) Value {
		write(th, bufFields(th, a[0]), []Value{a[1]})
		return nilError()
	})
	reg("(*bytes.Buffer).WriteString", func(th *Thread, fn *ssa.Function, a []Value) Value {
		s := a[1].(*StrVal)
		write(th, bufFields(th, a[0]), s.e)
		return Tuple{th.lenOf(s.e), nilError()}
	})
	reg("(*bytes.Buffer).Write", func(th *Thread, fn *ssa.Function, a []Value) Value {
		s := a[1].(Slice)
		write(th, bufFields(th, a[0]), s.a)
		return Tuple{th.lenOf(s.a), nilError()}
	})
	reg("(*bytes.Buffer).Bytes", func(th *Thread, fn *ssa.Function, a []Value) Value {
		c := contents(th, bufFields(th, a[0]))
		return Slice{a: c}
	})
	reg("(*bytes.Buffer).String", func(th *Thread, fn *ssa.Function, a []Value) Value {
		p := a[0].(*Value)
		if p == nil {
			return concreteStr("<nil>")
		}
		c := contents(th, bufFields(th, a[0]))
		return &StrVal{e: append([]Value{}, c...)}
	})
	reg("(*bytes.Buffer).Len", func(th *Thread, fn *ssa.Function, a []Value) Value {
		return th.lenOf(contents(th, bufFields(th, a[0])))
	})
	reg("(*bytes.Buffer).Reset", func(th *Thread, fn *ssa.Function, a []Value) Value {
		b := bufFields(th, a[0])
		s := b[0].(Slice)
		if s.a != nil {
			b[0] = Slice{a: s.a[:0]}
		}
		b[1] = mkBV(64, 0)
		return nil
	})
	reg("(*bytes.Buffer).Next", func(th *Thread, fn *ssa.Function, a []Value) Value {
		b := bufFields(th, a[0])
		c := contents(th, b)
		n := a[1].(*Term)
		total := th.lenOf(c)
		// Next(Len()) is the only symbolic use: everything
		if !n.IsConst() {
			if e := mkEq(n, total); !th.st.branch(e, "buffer-next-all") {
				th.st.abort("bytes.Buffer.Next with a symbolic partial count")
			}
			b[1] = mkBin("bvadd", b[1].(*Term), mkBV(64, uint64(len(c))))
			return Slice{a: c}
		}
		k := int(n.Int())
		if hasWide(c) {
			th.st.abort("bytes.Buffer.Next(constant) over opaque tokens")
		}
		if k > len(c) {
			k = len(c)
		}
		b[1] = mkBin("bvadd", b[1].(*Term), mkBV(64, uint64(k)))
		return Slice{a: c[:k]}
	})
}

func registerMisc(e *Engine) {
	reg := func(name string, f Intrinsic) { e.intrinsics[name] = f }
	// strings.Builder{addr *Builder; buf []byte}: the real one uses unsafe
	sbuf := func(th *Thread, recv Value) Struct {
		p := recv.(*Value)
		if p == nil {
			th.runtimePanic("nil pointer dereference", "nil *strings.Builder")
		}
		return (*p).(Struct)
	}
	sbWrite := func(th *Thread, b Struct, data []Value) {
		s := b[1].(Slice)
		add := make([]Value, len(data))
		copy(add, data)
		if s.a == nil {
			s.a = []Value{}
		}
		b[1] = Slice{a: append(s.a, add...)}
	}
	reg("(*strings.Builder).Grow", func(th *Thread, fn *ssa.Function, a []Value) Value { return nil })
	reg("(*strings.Builder).Write", func(th *Thread, fn *ssa.Function, a []Value) Value {
		d := a[1].(Slice).a
		sbWrite(th, sbuf(th, a[0]), d)
		return Tuple{th.lenOf(d), nilError()}
	})
	reg("(*strings.Builder).WriteString", func(th *Thread, fn *ssa.Function, a []Value) Value {
		d := a[1].(*StrVal).e
		sbWrite(th, sbuf(th, a[0]), d)
		return Tuple{th.lenOf(d), nilError()}
	})
	reg("(*strings.Builder).WriteByte", func(th *Thread, fn *ssa.Function, a []Value) Value {
		sbWrite(th, sbuf(th, a[0]), []Value{a[1]})
		return nilError()
	})
	reg("(*strings.Builder).String", func(th *Thread, fn *ssa.Function, a []Value) Value {
		return &StrVal{e: append([]Value{}, sbuf(th, a[0])[1].(Slice).a...)}
	})
	reg("(*strings.Builder).Len", func(th *Thread, fn *ssa.Function, a []Value) Value {
		return th.lenOf(sbuf(th, a[0])[1].(Slice).a)
	})
	reg("(*strings.Builder).Reset", func(th *Thread, fn *ssa.Function, a []Value) Value {
		sbuf(th, a[0])[1] = Slice{}
		return nil
	})
	reg("reflect.TypeOf", func(th *Thread, fn *ssa.Function, a []Value) Value {
		iv := a[0].(Iface)
		if iv.t == nil {
			return Iface{}
		}
		return th.rtypeIface(iv.t)
	})
	reg("internal/stringslite.Clone", func(th *Thread, fn *ssa.Function, a []Value) Value { return a[0] })
	reg("strings.Clone", func(th *Thread, fn *ssa.Function, a []Value) Value { return a[0] })
	reg("io.ReadAll", func(th *Thread, fn *ssa.Function, a []Value) Value {
		r := a[0].(Iface)
		if r.t == nil {
			th.runtimePanic("nil pointer dereference", "io.ReadAll(nil)")
		}
		// harness readers expose their whole content through VerifAll
		if m := th.findMethod(r.t, "VerifAll"); m != nil {
			return th.callFn(m, []Value{r.v}, nil)
		}
		if o, ok := r.v.(*Opaque); ok && o.kind == "bytesbody" {
			b := o.data.(*bytesBody)
			rest := b.data[b.pos:]
			b.pos = len(b.data)
			return Tuple{Slice{a: append([]Value{}, rest...)}, nilError()}
		}
		th.st.abort("io.ReadAll over %v not modelled", r.t)
		return nil
	})
	// http.NewRequest / NewRequestWithContext: a minimal request (method, empty
	// URL, empty header, body); url parsing is not modelled
	newReq := func(th *Thread, fn *ssa.Function, method *StrVal, url *StrVal, body Iface) Value {
		rt := mustDeref(fn.Signature.Results().At(0).Type())
		cell := new(Value)
		req := zero(rt).(Struct)
		st := rt.Underlying().(*types.Struct)
		for i := 0; i < st.NumFields(); i++ {
			switch st.Field(i).Name() {
			case "Method":
				req[i] = method
			case "Header":
				req[i] = &MapVal{}
			case "URL":
				u := new(Value)
				*u = zero(mustDeref(st.Field(i).Type()))
				req[i] = u
			case "Body":
				if body.t != nil {
					data := th.readerContents(body)
					req[i] = Iface{t: types.Typ[types.UnsafePointer], v: &Opaque{kind: "bytesbody", data: &bytesBody{data: data}}}
				}
			}
		}
		*cell = req
		return Tuple{cell, nilError()}
	}
	reg("net/http.NewRequest", func(th *Thread, fn *ssa.Function, a []Value) Value {
		return newReq(th, fn, a[0].(*StrVal), a[1].(*StrVal), a[2].(Iface))
	})
	reg("net/http.NewRequestWithContext", func(th *Thread, fn *ssa.Function, a []Value) Value {
		return newReq(th, fn, a[1].(*StrVal), a[2].(*StrVal), a[3].(Iface))
	})
	reg("(*errors.joinError).Error", func(th *Thread, fn *ssa.Function, a []Value) Value {
		// the real one builds the text with unsafe.String; texts are not part of any property
		return concreteStr("<joined errors>")
	})
	reg("errors.New", func(th *Thread, fn *ssa.Function, a []Value) Value {
		cell := new(Value)
		*cell = Struct{a[0]}
		t := th.st.eng.P.pkgs["errors"].Type("errorString").Type()
		return Iface{t: types.NewPointer(t), v: cell}
	})
}

// ---- reflect.Type over go/types (enough for package handler's init) ----------

func (th *Thread) rtypeIface(t types.Type) Value {
	p := th.st.eng.P.pkgs["reflect"]
	var rt types.Type = types.Typ[types.UnsafePointer]
	if p != nil {
		rt = types.NewPointer(p.Type("rtype").Type())
	}
	return Iface{t: rt, v: &Opaque{kind: "rtype", data: t}}
}

func (th *Thread) rtypeMethod(o *Opaque, name string) *Native { return th.rtypeMethodFull(o, name) }

// ---- package initialisation --------------------------------------------------

// ensureInit runs the package-level variable initialisers (and init functions)
// of a package the first time one of its globals is touched on this path.
// Calls to other packages' init functions are skipped; they run on demand.
func (st *State) ensureInit(th *Thread, pkg *ssa.Package) {
	if pkg == nil || st.initDone[pkg] {
		return
	}
	if st.spec != nil {
		// package initialisation has side effects: not inside a speculative
		// summary (the call is then executed normally, which initialises)
		panic(specFail{"package initialisation"})
	}
	st.initDone[pkg] = true
	for _, m := range pkg.Members {
		if g, ok := m.(*ssa.Global); ok {
			p := new(Value)
			*p = zero(mustDeref(g.Type()))
			st.globals[g] = p
		}
	}
	if !st.eng.initAllowed(pkg) {
		for _, m := range pkg.Members {
			if g, ok := m.(*ssa.Global); ok {
				*st.globals[g] = st.externalGlobal(g)
			}
		}
		return
	}
	init := pkg.Func("init")
	if init == nil || init.Blocks == nil {
		return
	}
	saved := th.stack
	th.callInit(init, pkg)
	th.stack = saved
}

var initWhitelist = map[string]bool{
	"errors": true, "io": true, "context": true, "bufio": true, "bytes": true, "strconv": true,
	"golang.org/x/sync/semaphore": true, "container/list": true, "unicode/utf8": true, "sort": true,
}

func (e *Engine) initAllowed(pkg *ssa.Package) bool {
	path := pkg.Pkg.Path()
	if e.P.isModulePkg(pkg.Pkg) || strings.HasPrefix(path, "github.com/creachadair/mds") {
		return true
	}
	return initWhitelist[path]
}

// callInit interprets a package init function, skipping foreign init calls.
func (th *Thread) callInit(init *ssa.Function, pkg *ssa.Package) {
	st := th.st
	fr := &Frame{th: th, fn: init, env: map[ssa.Value]Value{}, visits: map[*ssa.BasicBlock]int{}}
	for _, l := range init.Locals {
		p := new(Value)
		*p = zero(mustDeref(l.Type()))
		fr.env[l] = p
	}
	fr.block = init.Blocks[0]
	for fr.block != nil {
		jumped := false
		for _, instr := range fr.block.Instrs {
			if c, ok := instr.(*ssa.Call); ok {
				if f, ok := c.Call.Value.(*ssa.Function); ok && f.Name() == "init" && f.Pkg != pkg && f.Signature.Recv() == nil {
					continue // other package's init: on demand
				}
			}
			// the init guard: treat as "not yet initialised"
			if u, ok := instr.(*ssa.UnOp); ok {
				if g, ok := u.X.(*ssa.Global); ok && g.Name() == "init$guard" {
					fr.env[u] = tFalse
					continue
				}
			}
			if s, ok := instr.(*ssa.Store); ok {
				if g, ok := s.Addr.(*ssa.Global); ok && g.Name() == "init$guard" {
					continue
				}
			}
			switch fr.visit(instr) {
			case kReturn:
				return
			case kJump:
				jumped = true
			}
			if jumped {
				break
			}
		}
		if !jumped {
			st.abort("init block fell through")
		}
	}
}

// externalGlobal synthesises the value of a global in a package whose init is
// not executed: error sentinels become distinct error objects.
func (st *State) externalGlobal(g *ssa.Global) Value {
	t := mustDeref(g.Type())
	if it, ok := t.Underlying().(*types.Interface); ok && it.NumMethods() == 1 && it.Method(0).Name() == "Error" {
		ep := st.eng.P.pkgs["errors"]
		cell := new(Value)
		*cell = Struct{concreteStr("<" + g.Pkg.Pkg.Path() + "." + g.Name() + ">")}
		return Iface{t: types.NewPointer(ep.Type("errorString").Type()), v: cell}
	}
	if p, ok := t.Underlying().(*types.Pointer); ok {
		cell := new(Value)
		*cell = zero(p.Elem())
		return cell
	}
	return zero(t)
}

// bytesBody is the engine's request body (a reader over a fixed byte sequence).
type bytesBody struct {
	data   []Value
	pos    int
	closed int
}

// readerContents returns everything a *bytes.Reader / *bytes.Buffer /
// harness reader would deliver.
func (th *Thread) readerContents(r Iface) []Value {
	if m := th.findMethod(r.t, "VerifAll"); m != nil {
		res := th.callFn(m, []Value{r.v}, nil).(Tuple)
		return res[0].(Slice).a
	}
	name := r.t.String()
	if cell, ok := r.v.(*Value); ok && cell != nil {
		if sv, ok := (*cell).(Struct); ok {
			switch name {
			case "*bytes.Reader":
				s := sv[0].(Slice).a
				i := int(sv[1].(*Term).Int())
				return append([]Value{}, s[i:]...)
			case "*bytes.Buffer":
				off := int(sv[1].(*Term).Int())
				return append([]Value{}, sv[0].(Slice).a[off:]...)
			}
		}
	}
	th.st.abort("request body reader %s not modelled", name)
	return nil
}
