package main

// The `check` and `replay` commands: run a property's harnesses, replay
// counterexamples natively, classify, write evidence.

import (
	"bufio"
	"context"
	"crypto/sha256"
	"encoding/json"
	"fmt"
	"os"
	"os/exec"
	"path/filepath"
	"sort"
	"strconv"
	"strings"
	"time"
)

type cexFile struct {
	Property string              `json:"property"`
	Harness  string              `json:"harness"`
	Dir      string              `json:"dir"`
	Tier     string              `json:"tier"`
	What     string              `json:"what"`
	Sig      string              `json:"signature"`
	Model    map[string][]uint64 `json:"model"`
	Sched    []int               `json:"sched,omitempty"`
	Trace    []string            `json:"trace,omitempty"`
	Decis    []int               `json:"decisions,omitempty"`
	Threads  int                 `json:"threads,omitempty"`
	Replay   string              `json:"replay_cmd"`
}

type knownFinding struct {
	kind, prop, sig, rest string
}

func loadKnown(verif string) []knownFinding {
	f, err := os.Open(filepath.Join(verif, "known_findings.txt"))
	if err != nil {
		return nil
	}
	defer f.Close()
	var out []knownFinding
	sc := bufio.NewScanner(f)
	for sc.Scan() {
		line := strings.TrimSpace(sc.Text())
		if line == "" || strings.HasPrefix(line, "#") {
			continue
		}
		k := knownFinding{}
		switch {
		case strings.HasPrefix(line, "known:"):
			k.kind = "known"
			line = strings.TrimSpace(line[6:])
		case strings.HasPrefix(line, "fixed:"):
			k.kind = "fixed"
			line = strings.TrimSpace(line[6:])
		default:
			continue
		}
		for _, f := range splitFields(line) {
			switch {
			case strings.HasPrefix(f, "property="):
				k.prop = f[9:]
			case strings.HasPrefix(f, "sig="):
				k.sig = strings.Trim(f[4:], `"`)
			}
		}
		k.rest = line
		out = append(out, k)
	}
	return out
}

// splitFields splits on spaces but keeps "quoted strings" together.
func splitFields(s string) []string {
	var out []string
	var cur strings.Builder
	inq := false
	for _, r := range s {
		switch {
		case r == '"':
			inq = !inq
			cur.WriteRune(r)
		case r == ' ' && !inq:
			if cur.Len() > 0 {
				out = append(out, cur.String())
				cur.Reset()
			}
		default:
			cur.WriteRune(r)
		}
	}
	if cur.Len() > 0 {
		out = append(out, cur.String())
	}
	return out
}

func violationSig(harness, what string) string {
	// strip volatile parts (line numbers stay: they identify the call site)
	w := what
	if i := strings.Index(w, "\n"); i >= 0 {
		w = w[:i]
	}
	return harness + ": " + w
}

type replayOutcome struct {
	reproduced bool
	assumeFail bool
	buildFail  bool
	output     string
}

// writeOverlay writes the go-build overlay that injects the harness files and
// a replay test into the package directory.
func writeOverlay(P *Program, verif, dir, harness string) (string, string, error) {
	genDir := filepath.Join(verif, "out", "gen")
	os.MkdirAll(genDir, 0o755)
	rel := harnessDirs[dir]
	pkgDir := filepath.Join(P.repo, rel)
	testSrc := fmt.Sprintf("//go:build verif\n\npackage %s\n\nimport \"testing\"\n\nfunc TestVerifReplay(t *testing.T) { %s() }\n", dir, harness)
	testPath := filepath.Join(genDir, dir+"_"+harness+"_replay_test.go")
	if err := os.WriteFile(testPath, []byte(testSrc), 0o644); err != nil {
		return "", "", err
	}
	repl := map[string]string{filepath.Join(pkgDir, "zz_verif_replay_test.go"): testPath}
	for virt, real := range P.overlay {
		repl[virt] = real
	}
	ov, _ := json.MarshalIndent(map[string]interface{}{"Replace": repl}, "", " ")
	ovPath := filepath.Join(genDir, dir+"_"+harness+"_overlay.json")
	if err := os.WriteFile(ovPath, ov, 0o644); err != nil {
		return "", "", err
	}
	return ovPath, pkgDir, nil
}

// replayNative runs the harness natively with the counterexample's values.  A
// schedule-dependent counterexample may need several attempts on the real
// scheduler: when the first run does not reproduce and the path had more than
// one thread, the replay is repeated (one build, many runs).
func replayNative(P *Program, verif string, cex *cexFile, cexPath string) replayOutcome {
	o := replayNativeN(P, verif, cex, cexPath, 1)
	if !o.reproduced && !o.buildFail && !o.assumeFail && cex.Threads > 1 {
		o = replayNativeN(P, verif, cex, cexPath, 60)
	}
	return o
}

func replayNativeN(P *Program, verif string, cex *cexFile, cexPath string, count int) replayOutcome {
	ovPath, pkgDir, err := writeOverlay(P, verif, cex.Dir, cex.Harness)
	if err != nil {
		return replayOutcome{buildFail: true, output: err.Error()}
	}
	ctx, cancel := context.WithTimeout(context.Background(), 300*time.Second)
	defer cancel()
	cmd := exec.CommandContext(ctx, "go", "test", "-tags", "verif", "-vet=off", "-count="+strconv.Itoa(count), "-timeout", "60s",
		"-overlay", ovPath, "-run", "^TestVerifReplay$", ".")
	cmd.Dir = pkgDir
	cmd.Env = append(os.Environ(), "GOFLAGS=-mod=mod", "GOPROXY=off", "GOSUMDB=off", "GOTOOLCHAIN=local",
		"VERIF_REPLAY="+cexPath, "VERIF_TIER="+cex.Tier)
	out, runErr := cmd.CombinedOutput()
	o := replayOutcome{output: string(out)}
	txt := string(out)
	switch {
	case strings.Contains(txt, "[build failed]") || strings.Contains(txt, "[setup failed]"):
		o.buildFail = true
	case strings.Contains(txt, "VERIF-ASSUME-FAILED"):
		o.assumeFail = true
	case runErr != nil && (strings.Contains(txt, "VERIF-ASSERT-FAILED") || strings.Contains(txt, "panic:") ||
		strings.Contains(txt, "fatal error:") || strings.Contains(txt, "test timed out")):
		o.reproduced = true
	}
	return o
}

func runReplayFile(repo, verif, file string) int {
	b, err := os.ReadFile(file)
	if err != nil {
		fmt.Fprintln(os.Stderr, err)
		return 2
	}
	var cex cexFile
	if err := json.Unmarshal(b, &cex); err != nil {
		fmt.Fprintln(os.Stderr, err)
		return 2
	}
	P, err := loadProgram(repo, verif+"/harness", cex.Dir)
	if err != nil {
		fmt.Fprintln(os.Stderr, "load:", err)
		return 2
	}
	abs, _ := filepath.Abs(file)
	o := replayNative(P, verif, &cex, abs)
	fmt.Print(o.output)
	if o.reproduced {
		fmt.Printf("REPRODUCED property=%s harness=%s: %s\n", cex.Property, cex.Harness, cex.What)
		return 1
	}
	fmt.Printf("not reproduced (assume-failed=%v build-failed=%v)\n", o.assumeFail, o.buildFail)
	return 0
}

// ---- check -----------------------------------------------------------------

type harnessEvidence struct {
	Harness     string            `json:"harness"`
	Package     string            `json:"package"`
	Paths       int               `json:"paths"`
	Infeasible  int               `json:"infeasible_paths"`
	Pruned      int               `json:"pruned_paths_outside_bound"`
	PrunedWhy   []string          `json:"pruned_reasons,omitempty"`
	Obligations int               `json:"assertion_queries"`
	Trivial     int               `json:"assertions_decided_by_folding"`
	Sat         int               `json:"solver_sat"`
	Unsat       int               `json:"solver_unsat"`
	Unknown     int               `json:"solver_unknown"`
	SolverS     float64           `json:"solver_time_s"`
	WallS       float64           `json:"wall_s"`
	MaxUnroll   int               `json:"max_loop_unrolling_reached"`
	UnwindBound int               `json:"unwind_bound"`
	Threads     int               `json:"max_threads"`
	SchedPoints int               `json:"schedule_decisions"`
	Preempt     int               `json:"preemption_bound"`
	Reach       map[string]int    `json:"reach_labels_hit"`
	Required    []string          `json:"reach_labels_required"`
	Functions   []string          `json:"functions_encoded"`
	Notes       []string          `json:"engine_notes,omitempty"`
	Bounds      map[string]string `json:"bounds,omitempty"`
}

func runCheck(repo, verif, prop, tier string, workers int, solver string) int {
	t0 := time.Now()
	spec, ok := propSpecs[prop]
	if !ok {
		fmt.Fprintf(os.Stderr, "unknown property %s\n", prop)
		return 2
	}
	seed, _ := strconv.Atoi(os.Getenv("VERIF_SEED"))
	evPath := filepath.Join(verif, "evidence", prop+".json")
	os.MkdirAll(filepath.Dir(evPath), 0o755)
	os.MkdirAll(filepath.Join(verif, "out", "cex"), 0o755)

	inconclusive := []string{}
	var dirs []string
	for _, h := range spec.Harnesses {
		dirs = append(dirs, h.Dir)
	}
	P, err := loadProgram(repo, verif+"/harness", dirs...)
	if err != nil {
		fmt.Printf("INCONCLUSIVE property=%s: %v\n", prop, err)
		writeEvidence(evPath, prop, tier, seed, spec, nil, 0, 0, nil, []string{"load failed: " + err.Error()}, nil, time.Since(t0), P)
		return 2
	}
	known := loadKnown(verif)
	var evs []harnessEvidence
	totalPaths, totalOblig := 0, 0
	var samples []string
	violations := 0
	knownSeen := []string{}
	exit := 0
	for _, h := range spec.Harnesses {
		if h.ThoroughOnly && tier != "thorough" {
			continue
		}
		cfg := defaultConfig()
		cfg.Workers = workers
		cfg.SolverKind = solver
		cfg.StopOnFirst = false
		cfg.Thorough = tier == "thorough"
		if h.Tweak != nil {
			h.Tweak(&cfg, tier == "thorough")
		}
		eng := newEngine(P, cfg)
		pkgPath := modulePath
		if d := harnessDirs[h.Dir]; d != "." && d != "" {
			pkgPath += "/" + d
		}
		res, err := eng.RunHarness(pkgPath, h.Name)
		if err != nil {
			inconclusive = append(inconclusive, fmt.Sprintf("%s: %v", h.Name, err))
			continue
		}
		totalPaths += res.Paths
		totalOblig += res.Obligations + res.Trivial
		for _, s := range res.Samples {
			if len(samples) < 12 {
				samples = append(samples, h.Name+": "+s)
			}
		}
		ev := harnessEvidence{Harness: h.Name, Package: pkgPath, Paths: res.Paths, Infeasible: res.Infeasible, Pruned: res.Pruned,
			PrunedWhy: sortedCounts(res.PrunedWhy), Obligations: res.Obligations, Trivial: res.Trivial, Sat: res.Stats.Sat, Unsat: res.Stats.Unsat,
			Unknown: res.Stats.Unknown, SolverS: round3(res.Stats.Time.Seconds()), WallS: round3(res.Wall.Seconds()), MaxUnroll: res.MaxVisits,
			UnwindBound: cfg.Unwind, Threads: res.MaxThreads, SchedPoints: res.SchedPoints, Preempt: cfg.Preempt, Reach: res.Reach,
			Required: h.Reach, Bounds: h.Bounds}
		for f := range res.Entered {
			if strings.Contains(f, "creachadair") || strings.HasPrefix(f, "redirected:") {
				ev.Functions = append(ev.Functions, strings.ReplaceAll(f, "github.com/creachadair/", ""))
			}
		}
		sort.Strings(ev.Functions)
		for n := range res.Notes {
			ev.Notes = append(ev.Notes, n)
		}
		sort.Strings(ev.Notes)
		evs = append(evs, ev)

		for _, a := range sortedCounts(res.Aborts) {
			inconclusive = append(inconclusive, h.Name+": abort: "+a)
		}
		for _, a := range sortedCounts(res.Unwinds) {
			inconclusive = append(inconclusive, h.Name+": unwinding assertion failed: "+a)
		}
		for _, a := range sortedCounts(res.Unknowns) {
			inconclusive = append(inconclusive, h.Name+": solver unknown: "+a)
		}
		if res.Budget {
			inconclusive = append(inconclusive, h.Name+": path budget exhausted")
		}
		if res.Stats.Errors > 0 {
			inconclusive = append(inconclusive, fmt.Sprintf("%s: %d solver errors", h.Name, res.Stats.Errors))
		}
		for _, lbl := range h.Reach {
			if res.Reach[lbl] == 0 && len(res.Violations) == 0 {
				inconclusive = append(inconclusive, fmt.Sprintf("%s: required reach label %q never hit (vacuity)", h.Name, lbl))
			}
		}
		// violations: one representative per signature
		bySig := map[string]*Violation{}
		var sigs []string
		for _, v := range res.Violations {
			s := violationSig(h.Name, v.What)
			if _, ok := bySig[s]; !ok {
				bySig[s] = v
				sigs = append(sigs, s)
			}
		}
		sort.Strings(sigs)
		for _, s := range sigs {
			v := bySig[s]
			sum := sha256.Sum256([]byte(s))
			cexPath := filepath.Join(verif, "out", "cex", fmt.Sprintf("%s_%s_%x.json", prop, h.Name, sum[:4]))
			cex := &cexFile{Property: prop, Harness: h.Name, Dir: h.Dir, Tier: tier, What: v.What, Sig: s, Model: v.Model,
				Sched: v.Sched, Trace: v.Trace, Decis: v.Decis, Threads: v.Threads, Replay: "./bin/gosym replay " + cexPath}
			b, _ := json.MarshalIndent(cex, "", " ")
			os.WriteFile(cexPath, b, 0o644)
			o := replayNative(P, verif, cex, cexPath)
			switch {
			case o.reproduced:
				if k := matchKnown(known, prop, s); k != nil {
					fmt.Printf("KNOWN-FINDING: property=%s %s\n", prop, k.rest)
					knownSeen = append(knownSeen, s)
				} else {
					fmt.Printf("VIOLATION property=%s replay=%s\n", prop, cexPath)
					fmt.Printf("  harness=%s what=%s\n  model=%v\n", h.Name, v.What, v.Model)
					violations++
					exit = 1
				}
			case o.buildFail:
				inconclusive = append(inconclusive, fmt.Sprintf("%s: replay build failed for %q: %s", h.Name, v.What, tail(o.output, 400)))
			default:
				inconclusive = append(inconclusive, fmt.Sprintf("%s: counterexample for %q did not reproduce natively (assume-failed=%v); encoder or stub is wrong; kept at %s",
					h.Name, v.What, o.assumeFail, cexPath))
			}
		}
		if exit == 1 {
			// the verdict is settled by a natively reproduced violation: the
			// remaining harnesses cannot change it (all signatures of this
			// harness were still compared with the known-findings list)
			samples = append(samples, "remaining harnesses skipped after the reproduced violation in "+h.Name)
			break
		}
	}
	writeEvidence(evPath, prop, tier, seed, spec, evs, totalPaths, totalOblig, samples, inconclusive, knownSeen, time.Since(t0), P, violations)
	if exit == 1 {
		return 1
	}
	if len(inconclusive) > 0 {
		for _, s := range inconclusive {
			fmt.Printf("INCONCLUSIVE property=%s: %s\n", prop, s)
		}
		return 2
	}
	fmt.Printf("OK property=%s tier=%s paths=%d assertions=%d wall=%.1fs\n", prop, tier, totalPaths, totalOblig, time.Since(t0).Seconds())
	return 0
}

func matchKnown(known []knownFinding, prop, sig string) *knownFinding {
	for i := range known {
		k := &known[i]
		if k.kind == "known" && k.prop == prop && k.sig != "" && strings.Contains(sig, k.sig) {
			return k
		}
	}
	return nil
}

func tail(s string, n int) string {
	if len(s) > n {
		return s[len(s)-n:]
	}
	return s
}

func round3(f float64) float64 { return float64(int(f*1000+0.5)) / 1000 }

func writeEvidence(path, prop, tier string, seed int, spec *PropSpec, evs []harnessEvidence, paths, oblig int, samples []string,
	inconclusive []string, knownSeen []string, wall time.Duration, P *Program, nviol ...int) {
	sat, unsat, unk := 0, 0, 0
	st := 0.0
	fnSet := map[string]bool{}
	for _, e := range evs {
		sat += e.Sat
		unsat += e.Unsat
		unk += e.Unknown
		st += e.SolverS
		for _, f := range e.Functions {
			fnSet[f] = true
		}
	}
	var fns []string
	for f := range fnSet {
		fns = append(fns, f)
	}
	sort.Strings(fns)
	if samples == nil {
		samples = []string{"(no completed path)"}
	}
	srcHash := ""
	if P != nil {
		h := sha256.New()
		for _, f := range P.srcFiles {
			if strings.HasPrefix(f, P.repo) {
				b, _ := os.ReadFile(f)
				h.Write(b)
			}
		}
		srcHash = fmt.Sprintf("%x", h.Sum(nil))[:16]
	}
	cov := map[string]interface{}{
		"explanation":                    spec.Explanation,
		"technique":                      "bounded symbolic execution of the real Go code (go/ssa -> SMT-LIB2 bit-vectors, z3); assertions decided by the solver over all values of the symbolic inputs within the stated bounds",
		"bounds":                         spec.Bounds,
		"outside_the_claim":              spec.Outside,
		"harnesses":                      evs,
		"functions_encoded":              fns,
		"evaluations":                    paths,
		"distinct_nontrivial":            oblig,
		"rule":                           "evaluations = feasible symbolic paths explored (each stands for all inputs satisfying its path condition); distinct_nontrivial = assertion obligations checked on those paths (solver queries + those decided by constant folding)",
		"samples":                        samples,
		"solver_queries":                 map[string]int{"sat": sat, "unsat": unsat, "unknown": unk},
		"solver_time_s":                  round3(st),
		"inconclusive":                   inconclusive,
		"known_findings_seen":            knownSeen,
		"encoding_regenerated_from_tree": "go/packages load of " + "/repo" + " at check time; sha256(prefix) of loaded module sources: " + srcHash,
	}
	ev := map[string]interface{}{
		"property_id": prop,
		"tier":        tier,
		"seed":        seed,
		"level":       "other",
		"coverage":    cov,
		"assumptions": spec.Assumptions,
		"wall_s":      round3(wall.Seconds()),
		"violations":  0,
	}
	if len(nviol) > 0 {
		ev["violations"] = nviol[0]
	}
	b, _ := json.MarshalIndent(ev, "", " ")
	os.WriteFile(path, b, 0o644)
}
