package main

// Loading /repo (plus harness overlay files) into SSA form.

import (
	"fmt"
	"go/types"
	"os"
	"path/filepath"
	"sort"
	"strings"

	"golang.org/x/tools/go/packages"
	"golang.org/x/tools/go/ssa"
	"golang.org/x/tools/go/ssa/ssautil"
)

type Program struct {
	prog    *ssa.Program
	pkgs    map[string]*ssa.Package // by import path
	modPath string
	repo    string
	overlay map[string]string // virtual path -> real path (for go test -overlay)
	// hashes of the source files that were loaded (evidence: regenerated from
	// the current tree)
	srcFiles []string
	// harness files left out because they do not build against the tree
	dropped []string
}

const modulePath = "github.com/creachadair/jrpc2"

// harnessDirs maps a harness sub-directory of /verif/harness to the package
// directory (relative to the repo root) it is injected into.
var harnessDirs = map[string]string{
	"jrpc2":   ".",
	"channel": "channel",
	"handler": "handler",
	"jhttp":   "jhttp",
	"server":  "server",
}

// loadProgram loads /repo with the harness files of the given harness
// directories only (nil = all), so that a harness that no longer compiles
// against a changed tree only affects the checks that use it.
func loadProgram(repo, harnessRoot string, only ...string) (*Program, error) {
	want := map[string]bool{}
	for _, d := range only {
		want[d] = true
	}
	overlay := map[string][]byte{}
	ovPaths := map[string]string{}
	prims, err := os.ReadFile(filepath.Join(harnessRoot, "prims.go.txt"))
	if err != nil {
		return nil, err
	}
	var dirs []string
	for d := range harnessDirs {
		dirs = append(dirs, d)
	}
	sort.Strings(dirs)
	for _, d := range dirs {
		if len(want) > 0 && !want[d] {
			continue
		}
		rel := harnessDirs[d]
		files, _ := filepath.Glob(filepath.Join(harnessRoot, d, "*.go"))
		if len(files) == 0 {
			continue
		}
		pkgName := d
		for _, f := range files {
			src, err := os.ReadFile(f)
			if err != nil {
				return nil, err
			}
			virt := filepath.Join(repo, rel, "zz_verif_"+filepath.Base(f))
			overlay[virt] = src
			ovPaths[virt] = f
		}
		// the primitives file, with the package clause rewritten
		p := strings.Replace(string(prims), "package PKG", "package "+pkgName, 1)
		virt := filepath.Join(repo, rel, "zz_verif_prims.go")
		overlay[virt] = []byte(p)
		genDir := filepath.Join(filepath.Dir(harnessRoot), "out", "gen")
		os.MkdirAll(genDir, 0o755)
		gen := filepath.Join(genDir, d+"_prims.go")
		ovPaths[virt] = gen
		os.WriteFile(gen, []byte(p), 0o644)
	}
	cfg := &packages.Config{
		Mode: packages.NeedName | packages.NeedFiles | packages.NeedCompiledGoFiles | packages.NeedImports |
			packages.NeedDeps | packages.NeedTypes | packages.NeedSyntax | packages.NeedTypesInfo | packages.NeedTypesSizes | packages.NeedModule,
		Dir:        repo,
		BuildFlags: []string{"-tags=verif"},
		Overlay:    overlay,
		Env: append(os.Environ(), "GOFLAGS=-mod=mod", "GOPROXY=off", "GOSUMDB=off", "GOTOOLCHAIN=local",
			"CGO_ENABLED=0"),
	}
	var pkgs []*packages.Package
	var dropped []string
	for round := 0; ; round++ {
		pkgs, err = packages.Load(cfg, "./...")
		if err != nil {
			return nil, err
		}
		var errs []string
		bad := map[string]bool{}
		packages.Visit(pkgs, nil, func(p *packages.Package) {
			for _, e := range p.Errors {
				errs = append(errs, e.Error())
				if i := strings.Index(e.Pos, ".go:"); i > 0 {
					f := e.Pos[:i+3]
					if _, isHarness := overlay[f]; isHarness && !strings.HasSuffix(f, "zz_verif_prims.go") {
						bad[f] = true
					}
				}
			}
		})
		if len(errs) == 0 {
			break
		}
		if len(bad) == 0 || round >= 4 {
			if len(errs) > 20 {
				errs = errs[:20]
			}
			return nil, fmt.Errorf("package load errors (harness does not build against the tree):\n%s", strings.Join(errs, "\n"))
		}
		// a harness file that calls an internal function whose signature the
		// tree has changed: drop that file (its harnesses become inconclusive)
		// and keep the harnesses of the other files
		for f := range bad {
			delete(overlay, f)
			delete(ovPaths, f)
			dropped = append(dropped, filepath.Base(f))
		}
	}
	prog, _ := ssautil.AllPackages(pkgs, ssa.InstantiateGenerics|ssa.SanityCheckFunctions&0)
	prog.Build()
	P := &Program{prog: prog, pkgs: map[string]*ssa.Package{}, modPath: modulePath, repo: repo, overlay: ovPaths, dropped: dropped}
	for _, p := range prog.AllPackages() {
		P.pkgs[p.Pkg.Path()] = p
	}
	for _, p := range pkgs {
		for _, f := range p.CompiledGoFiles {
			P.srcFiles = append(P.srcFiles, f)
		}
	}
	sort.Strings(P.srcFiles)
	return P, nil
}

func (P *Program) lookupFunc(pkgPath, name string) *ssa.Function {
	p := P.pkgs[pkgPath]
	if p == nil {
		return nil
	}
	return p.Func(name)
}

func (P *Program) isModulePkg(p *types.Package) bool {
	return p != nil && (p.Path() == P.modPath || strings.HasPrefix(p.Path(), P.modPath+"/"))
}
