package main

// The SSA interpreter: frames, instructions, calls, defers and Go panics.

import (
	"fmt"
	"os"
	"go/token"
	"go/types"
	"strings"

	"golang.org/x/tools/go/ssa"
)

// goPanic is a panic of the interpreted program.
type goPanic struct {
	v    Value  // the panic value (an Iface)
	kind string // runtime error class, or "explicit"
	site string
}

func (g goPanic) describe() string {
	s := g.kind
	if iv, ok := g.v.(Iface); ok {
		if sv, ok := iv.v.(*StrVal); ok {
			if str, ok := sv.goString(); ok {
				s += ": " + str
			}
		} else if iv.t != nil {
			s += " (" + iv.t.String() + ")"
		}
	}
	return s + " at " + g.site
}

type deferred struct {
	fn   Value
	args []Value
	site string
}

type Frame struct {
	th        *Thread
	fn        *ssa.Function
	env       map[ssa.Value]Value
	block     *ssa.BasicBlock
	prev      *ssa.BasicBlock
	defers    []deferred
	result    Value
	panicking bool
	panicVal  goPanic
	visits    map[*ssa.BasicBlock]int
	caller    *Frame
	recovered bool
}

func (th *Thread) runtimePanic(kind, format string, args ...interface{}) {
	msg := fmt.Sprintf(format, args...)
	site := ""
	if len(th.stack) > 0 {
		site = th.stack[len(th.stack)-1]
	}
	panic(goPanic{v: Iface{t: types.Typ[types.String], v: concreteStr("runtime error: " + msg)}, kind: "runtime error: " + kind, site: site})
}

func (fr *Frame) get(v ssa.Value) Value {
	switch v := v.(type) {
	case nil:
		return nil
	case *ssa.Const:
		return fr.th.constValue(v)
	case *ssa.Global:
		return fr.th.st.globalAddr(fr.th, v)
	case *ssa.Function:
		return v
	case *ssa.Builtin:
		return v
	}
	if r, ok := fr.env[v]; ok {
		return r
	}
	fr.th.st.abort("get: no value for %T %v in %s", v, v.Name(), fr.fn)
	return nil
}

func (th *Thread) constValue(c *ssa.Const) Value {
	t := c.Type()
	if c.Value == nil {
		return zero(t)
	}
	if tp, ok := t.(*types.TypeParam); ok {
		_ = tp
		th.st.abort("const of type parameter")
	}
	u := t.Underlying()
	if b, ok := u.(*types.Basic); ok {
		switch {
		case b.Info()&types.IsBoolean != 0:
			return mkBool(c.Value.String() == "true")
		case b.Info()&types.IsString != 0:
			return concreteStr(constantString(c))
		case b.Info()&types.IsInteger != 0:
			s, _ := sortOf(t)
			if isSigned(t) {
				return mkInt(s, c.Int64())
			}
			return mkBV(s, c.Uint64())
		case b.Info()&types.IsFloat != 0:
			return &Float{known: true, f: c.Float64()}
		}
	}
	th.st.abort("unsupported constant %v of type %v", c, t)
	return nil
}

func (st *State) globalAddr(th *Thread, g *ssa.Global) *Value {
	if p, ok := st.globals[g]; ok {
		return p
	}
	st.ensureInit(th, g.Pkg)
	if p, ok := st.globals[g]; ok {
		return p
	}
	p := new(Value)
	*p = st.externalGlobal(g)
	st.globals[g] = p
	return p
}

// callFn interprets a function body.
func (th *Thread) callFn(fn *ssa.Function, args []Value, env []Value) Value {
	st := th.st
	name := fn.String()
	if st.redirects != nil {
		if r, ok := st.redirects[name]; ok && !th.inRedirect[name] {
			if th.inRedirect == nil {
				th.inRedirect = map[string]bool{}
			}
			th.inRedirect[name] = true
			defer func() { th.inRedirect[name] = false }()
			st.entered["redirected:"+name] = true
			return th.callValue(r, args, "redirect")
		}
	}
	if ix, key, ok := st.eng.lookupIntrinsicKey(fn); ok {
		if st.spec != nil && !pureIntrinsics[key] {
			panic(specFail{"impure intrinsic " + key})
		}
		return ix(th, fn, args)
	}
	if st.spec == nil && st.eng.cfg.Summarize && th.summarizable(fn) {
		if v, ok := th.trySummarize(fn, args, env); ok {
			return v
		}
	}
	if fn.Blocks == nil {
		st.abort("unsupported external function %s", name)
	}
	if fn.Synthetic == "" || strings.HasPrefix(fn.Synthetic, "instance") {
		st.entered[name] = true
	}
	th.depth++
	if th.depth > st.eng.cfg.MaxDepth {
		st.end("unwind", "call depth exceeds %d at %s", st.eng.cfg.MaxDepth, name)
	}
	th.stack = append(th.stack, name)
	defer func() {
		th.depth--
		th.stack = th.stack[:len(th.stack)-1]
	}()
	fr := &Frame{th: th, fn: fn, env: make(map[ssa.Value]Value, 16), visits: map[*ssa.BasicBlock]int{}}
	for i, p := range fn.Params {
		if i < len(args) {
			fr.env[p] = args[i]
		}
	}
	for i, fv := range fn.FreeVars {
		fr.env[fv] = env[i]
	}
	for _, l := range fn.Locals {
		p := new(Value)
		*p = zero(mustDeref(l.Type()))
		fr.env[l] = p
		if st.spec != nil {
			st.spec.fresh[p] = true
		}
	}
	fr.block = fn.Blocks[0]
	for fr.block != nil {
		fr.runBlocks()
	}
	return fr.result
}

func mustDeref(t types.Type) types.Type {
	if p, ok := t.Underlying().(*types.Pointer); ok {
		return p.Elem()
	}
	panic("mustDeref: not a pointer: " + t.String())
}

// runBlocks runs until return or until a Go panic has been handled (recover).
func (fr *Frame) runBlocks() {
	defer func() {
		if fr.block == nil {
			return // normal return
		}
		r := recover()
		if r == nil {
			return
		}
		gp, ok := r.(goPanic)
		if !ok {
			panic(r) // path end or engine error: propagate untouched
		}
		fr.panicking = true
		fr.panicVal = gp
		fr.runDefers()
		// recovered: continue at the Recover block, if any
		fr.block = fr.fn.Recover
		if fr.block == nil {
			// no named results: return zero values
			fr.result = zeroResults(fr.fn)
		}
	}()
	for {
		st := fr.th.st
		fr.visits[fr.block]++
		if n := fr.visits[fr.block]; n > st.eng.cfg.Unwind {
			st.end("unwind", "loop bound %d exceeded in %s block %d", st.eng.cfg.Unwind, fr.fn, fr.block.Index)
		} else if n > st.maxVisits {
			st.maxVisits = n
		}
		jumped := false
		for _, instr := range fr.block.Instrs {
			st.steps++
			if st.spec != nil {
				st.spec.steps++
				if st.spec.steps > specMaxSteps {
					panic(specFail{"step budget"})
				}
			}
			if st.steps > st.eng.cfg.MaxSteps {
				st.end("unwind", "step budget %d exceeded", st.eng.cfg.MaxSteps)
			}
			switch fr.visit(instr) {
			case kReturn:
				return
			case kJump:
				jumped = true
			}
			if jumped {
				break
			}
		}
		if !jumped {
			st.abort("block fell through in %s", fr.fn)
		}
	}
}

func zeroResults(fn *ssa.Function) Value {
	res := fn.Signature.Results()
	switch res.Len() {
	case 0:
		return nil
	case 1:
		return zero(res.At(0).Type())
	}
	return zero(res)
}

func (fr *Frame) runDefers() {
	for len(fr.defers) > 0 {
		d := fr.defers[len(fr.defers)-1]
		fr.defers = fr.defers[:len(fr.defers)-1]
		fr.runDefer(d)
	}
	if fr.panicking {
		panic(fr.panicVal)
	}
}

func (fr *Frame) runDefer(d deferred) {
	ok := false
	defer func() {
		if ok {
			return
		}
		r := recover()
		gp, isGo := r.(goPanic)
		if !isGo {
			panic(r)
		}
		// a deferred call panicked: it replaces the current panic
		fr.panicking = true
		fr.panicVal = gp
	}()
	fr.th.deferFrame = append(fr.th.deferFrame, fr)
	defer func() { fr.th.deferFrame = fr.th.deferFrame[:len(fr.th.deferFrame)-1] }()
	fr.th.callValue(d.fn, d.args, d.site)
	ok = true
}

type continuation int

const (
	kNext continuation = iota
	kReturn
	kJump
)

var traceFn = os.Getenv("GOSYM_TRACE")

func (fr *Frame) visit(instr ssa.Instruction) continuation {
	th := fr.th
	st := th.st
	if traceFn != "" && strings.Contains(fr.fn.String(), traceFn) {
		defer func() {
			if v, ok := instr.(ssa.Value); ok {
				fmt.Fprintf(os.Stderr, "TRACE %s b%d: %s = %s  => %s\n", fr.fn.Name(), fr.block.Index, v.Name(), instr.String(), describe(fr.env[v]))
			} else {
				fmt.Fprintf(os.Stderr, "TRACE %s: %s\n", fr.fn.Name(), instr.String())
			}
		}()
	}
	switch instr := instr.(type) {
	case *ssa.DebugRef:
	case *ssa.UnOp:
		fr.env[instr] = th.unop(instr, fr.get(instr.X))
	case *ssa.BinOp:
		fr.env[instr] = th.binop(instr.Op, instr.X.Type(), fr.get(instr.X), fr.get(instr.Y))
	case *ssa.Call:
		fn, args := fr.prepareCall(&instr.Call)
		fr.env[instr] = th.callValue(fn, args, posString(st.eng, instr.Pos()))
	case *ssa.ChangeInterface:
		fr.env[instr] = fr.get(instr.X)
	case *ssa.ChangeType:
		fr.env[instr] = fr.get(instr.X)
	case *ssa.Convert:
		fr.env[instr] = th.conv(instr.Type(), instr.X.Type(), fr.get(instr.X))
	case *ssa.MultiConvert:
		fr.env[instr] = th.conv(instr.Type(), instr.X.Type(), fr.get(instr.X))
	case *ssa.SliceToArrayPointer:
		st.abort("SliceToArrayPointer unsupported")
	case *ssa.MakeInterface:
		fr.env[instr] = Iface{t: instr.X.Type(), v: fr.get(instr.X)}
	case *ssa.Extract:
		fr.env[instr] = fr.get(instr.Tuple).(Tuple)[instr.Index]
	case *ssa.Slice:
		fr.env[instr] = th.sliceOp(instr, fr.get(instr.X), fr.get(instr.Low), fr.get(instr.High), fr.get(instr.Max))
	case *ssa.Return:
		switch len(instr.Results) {
		case 0:
		case 1:
			fr.result = fr.get(instr.Results[0])
		default:
			var res Tuple
			for _, r := range instr.Results {
				res = append(res, fr.get(r))
			}
			fr.result = res
		}
		fr.block = nil
		return kReturn
	case *ssa.RunDefers:
		fr.runDefers()
	case *ssa.Panic:
		panic(goPanic{v: fr.get(instr.X), kind: "explicit", site: posString(st.eng, instr.Pos())})
	case *ssa.Send:
		st.specDeny("send")
		th.chanSend(fr.get(instr.Chan), fr.get(instr.X))
	case *ssa.Store:
		p := fr.get(instr.Addr).(*Value)
		if st.spec != nil && !st.spec.fresh[p] {
			panic(specFail{"store"})
		}
		if p == nil {
			th.runtimePanic("nil pointer dereference", "invalid memory address or nil pointer dereference (store)")
		}
		storeInto(p, fr.get(instr.Val))
	case *ssa.If:
		c := fr.get(instr.Cond).(*Term)
		succ := 1
		if st.branch(c, fr.fn.Name()) {
			succ = 0
		}
		fr.prev, fr.block = fr.block, fr.block.Succs[succ]
		return kJump
	case *ssa.Jump:
		fr.prev, fr.block = fr.block, fr.block.Succs[0]
		return kJump
	case *ssa.Defer:
		st.specDeny("defer")
		fn, args := fr.prepareCall(&instr.Call)
		fr.defers = append(fr.defers, deferred{fn: fn, args: args, site: posString(st.eng, instr.Pos())})
	case *ssa.Go:
		st.specDeny("go")
		fn, args := fr.prepareCall(&instr.Call)
		site := posString(st.eng, instr.Pos())
		st.spawn("go@"+site, func(t *Thread) { t.callValue(fn, args, site) })
		th.yield("go")
	case *ssa.MakeChan:
		n := st.concretize(fr.get(instr.Size).(*Term), 4, "chan size")
		st.chanSeq++
		fr.env[instr] = &ChanVal{cap: int(n), id: st.chanSeq, elem: instr.Type().Underlying().(*types.Chan).Elem()}
	case *ssa.Alloc:
		var addr *Value
		if instr.Heap {
			addr = new(Value)
			fr.env[instr] = addr
		} else {
			addr = fr.env[instr].(*Value)
		}
		*addr = zero(mustDeref(instr.Type()))
		if st.spec != nil {
			st.spec.fresh[addr] = true
		}
	case *ssa.MakeSlice:
		fr.env[instr] = th.makeSlice(instr, fr.get(instr.Len).(*Term), fr.get(instr.Cap).(*Term))
	case *ssa.MakeMap:
		fr.env[instr] = &MapVal{}
	case *ssa.Range:
		fr.env[instr] = th.rangeIter(fr.get(instr.X))
	case *ssa.Next:
		fr.env[instr] = th.iterNext(fr.get(instr.Iter).(*MapIter), instr)
	case *ssa.FieldAddr:
		p := fr.get(instr.X).(*Value)
		if p == nil {
			th.runtimePanic("nil pointer dereference", "invalid memory address or nil pointer dereference (field)")
		}
		fr.env[instr] = &(*p).(Struct)[instr.Field]
	case *ssa.Field:
		fr.env[instr] = fr.get(instr.X).(Struct)[instr.Field]
	case *ssa.IndexAddr:
		fr.env[instr] = th.indexAddr(fr.get(instr.X), fr.get(instr.Index).(*Term))
	case *ssa.Index:
		fr.env[instr] = th.index(fr.get(instr.X), fr.get(instr.Index).(*Term))
	case *ssa.Lookup:
		fr.env[instr] = th.lookup(instr, fr.get(instr.X), fr.get(instr.Index))
	case *ssa.MapUpdate:
		st.specDeny("map update")
		th.mapUpdate(fr.get(instr.Map), fr.get(instr.Key), fr.get(instr.Value))
	case *ssa.TypeAssert:
		fr.env[instr] = th.typeAssert(instr, fr.get(instr.X).(Iface))
	case *ssa.MakeClosure:
		var bindings []Value
		for _, b := range instr.Bindings {
			bindings = append(bindings, fr.get(b))
		}
		fr.env[instr] = &Closure{fn: instr.Fn.(*ssa.Function), env: bindings}
	case *ssa.Phi:
		for i, pred := range instr.Block().Preds {
			if fr.prev == pred {
				fr.env[instr] = fr.get(instr.Edges[i])
				break
			}
		}
	case *ssa.Select:
		st.specDeny("select")
		fr.env[instr] = th.selectOp(fr, instr)
	default:
		st.abort("unsupported instruction %T in %s", instr, fr.fn)
	}
	return kNext
}

func posString(e *Engine, p token.Pos) string {
	if !p.IsValid() {
		return "?"
	}
	pos := e.P.prog.Fset.Position(p)
	f := pos.Filename
	if i := strings.LastIndex(f, "/"); i >= 0 {
		f = f[i+1:]
	}
	return fmt.Sprintf("%s:%d", f, pos.Line)
}

// prepareCall evaluates the callee and arguments of a call.
func (fr *Frame) prepareCall(call *ssa.CallCommon) (Value, []Value) {
	th := fr.th
	v := fr.get(call.Value)
	var fn Value
	var args []Value
	if call.Method == nil {
		fn = v
	} else {
		recv := v.(Iface)
		if recv.t == nil {
			th.runtimePanic("nil pointer dereference", "method call on nil interface value")
		}
		// engine objects intercept interface method calls
		if nat := th.invokeNative(recv, call.Method); nat != nil {
			fn = nat
		} else {
			m := th.st.eng.P.prog.LookupMethod(recv.t, call.Method.Pkg(), call.Method.Name())
			if m == nil {
				th.st.abort("method %s not found on %v", call.Method.Name(), recv.t)
			}
			fn = m
		}
		args = append(args, recv.v)
	}
	for _, a := range call.Args {
		args = append(args, fr.get(a))
	}
	return fn, args
}

func (th *Thread) callValue(fn Value, args []Value, site string) Value {
	switch f := fn.(type) {
	case *ssa.Function:
		if f == nil {
			th.runtimePanic("nil pointer dereference", "call of nil function")
		}
		return th.callFn(f, args, nil)
	case *Closure:
		return th.callFn(f.fn, args, f.env)
	case *Native:
		return f.fn(th, args)
	case *ssa.Builtin:
		return th.callBuiltin(f, args)
	case NilFunc:
		th.runtimePanic("nil pointer dereference", "call of nil func value")
	}
	th.st.abort("call of non-function %T at %s", fn, site)
	return nil
}

func constantString(c *ssa.Const) string {
	return constantStringValue(c)
}

// storeInto assigns v to *p, copying aggregates element-wise into the existing
// storage so that pointers to fields/elements taken earlier stay valid.
func storeInto(p *Value, v Value) {
	switch nv := v.(type) {
	case Struct:
		if old, ok := (*p).(Struct); ok && len(old) == len(nv) {
			for i := range nv {
				storeInto(&old[i], nv[i])
			}
			return
		}
	case Array:
		if old, ok := (*p).(Array); ok && len(old) == len(nv) {
			for i := range nv {
				storeInto(&old[i], nv[i])
			}
			return
		}
	}
	*p = copyVal(v)
}
