package main

// Per-path state, decisions (forks), threads and scheduling.

import (
	"fmt"
	"runtime/debug"
	"sort"
	"strings"
	"sync"

	"golang.org/x/tools/go/ssa"
)

// pathEnd is the Go panic payload that terminates the current path.
type pathEnd struct {
	kind string // done | infeasible | violation | abort | unwind | killed | budget
	msg  string
}

type Violation struct {
	Harness string
	What    string
	Model   map[string][]uint64 // nondet tag -> values in call order
	Sched   []int
	Trace   []string
	Decis   []int
	Threads int
}

type nondetRec struct {
	tag  string
	term *Term
}

type State struct {
	eng     *Engine
	solver  *Solver
	harness string

	prefix []int
	decis  []int // decisions taken on this path (prefix + new)
	forks  [][]int

	globals   map[*ssa.Global]*Value
	initDone  map[*ssa.Package]bool
	nondets   []nondetRec
	tagCount  map[string]int
	reach     map[string]bool
	entered   map[string]bool
	events    []Event
	clock     int
	assumes   int
	pcSample  []string
	outcome   *pathEnd
	violation *Violation
	violations []*Violation

	threads   []*Thread
	cur       *Thread
	dead      bool
	wg        sync.WaitGroup
	preempt   int
	mu        sync.Mutex // protects outcome when threads end
	mutexes   map[*Value]*mutexState
	wgs       map[*Value]*wgState
	sems      map[*Value]*semState
	chanSeq   int
	tokSeq    int
	strIntern map[string]uint64
	steps     int
	objSeq    int
	schedLog  []int
	notes     []string
	ghost     map[string]Value
	maxVisits int
	asserts   int
	typeIDs   map[string]int
	redirects map[string]Value
	decoders  map[*Value]*decoderState
	bgCtx     *CtxObj
	pruned    int
	mapOrdersOff bool
	forkSites []string
	spec *specState
	delays int
	known map[[2]uint64]bool
	cacheHits int
	summarized int
}

type Event struct {
	Clock  int
	Thread int
	Kind   string
	Args   []Value
}

type Thread struct {
	st       *State
	id       int
	resume   chan struct{}
	finished bool
	blocked  func() bool // non-nil while parked on a condition; true = still blocked
	what     string
	depth    int
	quiesce  bool
	name     string
	curFn    *ssa.Function
	stack    []string
	deferFrame []*Frame
	inRedirect map[string]bool
}

func (st *State) end(kind, format string, args ...interface{}) {
	if st.spec != nil {
		panic(specFail{"end:" + kind + ":" + fmt.Sprintf(format, args...)})
	}
	panic(pathEnd{kind: kind, msg: fmt.Sprintf(format, args...)})
}

func (st *State) abort(format string, args ...interface{}) {
	where := ""
	if st.cur != nil && len(st.cur.stack) > 0 {
		n := len(st.cur.stack)
		lo := n - 4
		if lo < 0 {
			lo = 0
		}
		where = " [in " + strings.Join(st.cur.stack[lo:], " > ") + "]"
	}
	st.end("abort", format+where, args...)
}

// recordDecision logs a solver-dependent engine decision so that a replay of
// the prefix takes the same route.
func (st *State) recordDecision(compute func() int) int {
	pos := len(st.decis)
	if pos < len(st.prefix) {
		d := st.prefix[pos]
		st.decis = append(st.decis, d)
		return d
	}
	d := compute()
	st.decis = append(st.decis, d)
	return d
}

// ---- decisions ------------------------------------------------------------

// choose picks one of n alternatives; guards[i] (may be nil = true) is the
// condition under which alternative i is possible.  It forks the path: the
// first feasible alternative is followed now, the others are queued.
func (st *State) choose(n int, guards []*Term, what string) int {
	if st.spec != nil {
		return st.specChoose(n, guards, what)
	}
	pos := len(st.decis)
	if pos < len(st.prefix) {
		d := st.prefix[pos]
		st.decis = append(st.decis, d)
		if guards != nil && guards[d] != nil {
			st.assertGuard(guards[d])
		}
		return d
	}
	var feas []int
	unknown := false
	for i := 0; i < n; i++ {
		if guards == nil || guards[i] == nil {
			feas = append(feas, i)
			continue
		}
		g := guards[i]
		if g.IsConst() {
			if g.Bool() {
				feas = append(feas, i)
			}
			continue
		}
		// last candidate with nothing feasible so far must be feasible
		if i == n-1 && len(feas) == 0 && !unknown && guardsExhaustive(what) {
			feas = append(feas, i)
			continue
		}
		res, _ := st.solver.Check(g, nil)
		switch res {
		case Sat:
			feas = append(feas, i)
		case Unknown:
			unknown = true
			feas = append(feas, i) // keep (sound for violations found later: they are replayed)
			st.eng.noteUnknown(st.harness, what)
		}
	}
	if len(feas) == 0 {
		st.end("infeasible", "no feasible alternative at %s", what)
	}
	for _, alt := range feas[1:] {
		p := append(append([]int{}, st.decis...), alt)
		st.forks = append(st.forks, p)
	}
	if len(feas) > 1 {
		st.forkSites = append(st.forkSites, what)
	}
	d := feas[0]
	st.decis = append(st.decis, d)
	if guards != nil && guards[d] != nil {
		st.assertGuard(guards[d])
	}
	return d
}

// learn records the truth of asserted literals for the syntactic cache.
func (st *State) learn(g *Term, val bool) {
	if g == nil || g.IsConst() {
		return
	}
	switch {
	case g.op == "not":
		st.learn(g.args[0], !val)
		return
	case g.op == "and" && val:
		st.learn(g.args[0], true)
		st.learn(g.args[1], true)
		return
	case g.op == "or" && !val:
		st.learn(g.args[0], false)
		st.learn(g.args[1], false)
		return
	}
	a, b := g.hash()
	st.known[[2]uint64{a, b}] = val
}

func (st *State) lookupKnown(g *Term) (bool, bool) {
	if g.op == "not" {
		v, ok := st.lookupKnown(g.args[0])
		return !v, ok
	}
	a, b := g.hash()
	v, ok := st.known[[2]uint64{a, b}]
	return v, ok
}

func (st *State) assertGuard(g *Term) {
	st.solver.Assert(g)
	st.learn(g, true)
}

// guardsExhaustive: for plain two-way branches the two guards are c and !c, so
// if c is infeasible !c is feasible (the path condition itself is satisfiable).
func guardsExhaustive(what string) bool { return strings.HasPrefix(what, "br") }

// branch forks on a boolean term.
func (st *State) branch(c *Term, what string) bool {
	if c.IsConst() {
		return c.Bool()
	}
	if st.spec == nil {
		if v, ok := st.lookupKnown(c); ok {
			st.cacheHits++
			return v
		}
	}
	d := st.choose(2, []*Term{c, mkNot(c)}, "br:"+what)
	return d == 0
}

// concretize forks over the feasible values of t (at most max of them).
func (st *State) concretize(t *Term, max int, what string) uint64 {
	if t.IsConst() {
		return t.c
	}
	st.specDeny("concretize")
	excl := tTrue
	for i := 0; i < max; i++ {
		// find a value under the exclusions so far
		var v uint64
		pos := len(st.decis)
		if pos < len(st.prefix) {
			// replaying: decisions are encoded as "value index" pairs: we stored
			// the concrete value itself in the prefix as two entries
			tag := st.prefix[pos]
			if tag == 0 {
				lo := uint64(uint32(st.prefix[pos+1]))
				hi := uint64(uint32(st.prefix[pos+2]))
				v = hi<<32 | lo
				st.decis = append(st.decis, 0, st.prefix[pos+1], st.prefix[pos+2])
				st.solver.Assert(mkEq(t, mkBV(t.sort, v)))
				return v
			}
			// tag 1: value excluded, continue with next
			lo := uint64(uint32(st.prefix[pos+1]))
			hi := uint64(uint32(st.prefix[pos+2]))
			v = hi<<32 | lo
			st.decis = append(st.decis, 1, st.prefix[pos+1], st.prefix[pos+2])
			ne := mkNot(mkEq(t, mkBV(t.sort, v)))
			st.solver.Assert(ne)
			continue
		}
		res, model := st.solver.Check(excl, []*Term{t})
		_ = excl
		if res == Unsat {
			st.end("infeasible", "concretize exhausted at %s", what)
		}
		if res == Unknown {
			st.eng.noteUnknown(st.harness, "concretize:"+what)
			st.end("abort", "solver unknown while concretizing %s", what)
		}
		if len(model) > 0 {
			v = model[0]
		}
		v &= mask(t.sort)
		lo, hi := int(uint32(v)), int(uint32(v>>32))
		// is another value possible?
		ne := mkNot(mkEq(t, mkBV(t.sort, v)))
		res2, _ := st.solver.Check(ne, nil)
		if res2 != Unsat {
			if i == max-1 {
				st.end("unwind", "more than %d values for %s", max, what)
			}
			p := append(append([]int{}, st.decis...), 1, lo, hi)
			st.forks = append(st.forks, p)
		}
		st.decis = append(st.decis, 0, lo, hi)
		st.solver.Assert(mkEq(t, mkBV(t.sort, v)))
		return v
	}
	st.end("unwind", "more than %d values for %s", max, what)
	return 0
}

// ---- nondet / assume / assert ----------------------------------------------

func (st *State) freshVar(tag string, s Sort) *Term {
	st.specDeny("fresh variable")
	k := st.tagCount[tag]
	st.tagCount[tag] = k + 1
	name := fmt.Sprintf("n!%s!%d", sanitize(tag), k)
	t := mkVar(name, s)
	st.nondets = append(st.nondets, nondetRec{tag: tag, term: t})
	return t
}

func sanitize(s string) string {
	var sb strings.Builder
	for _, r := range s {
		if r >= 'a' && r <= 'z' || r >= 'A' && r <= 'Z' || r >= '0' && r <= '9' || r == '_' || r == '.' {
			sb.WriteRune(r)
		} else {
			sb.WriteByte('_')
		}
	}
	return sb.String()
}

func (st *State) assume(c *Term) {
	st.specDeny("assume")
	st.assumes++
	if c.IsConst() {
		if !c.Bool() {
			st.end("infeasible", "assume(false)")
		}
		return
	}
	if len(st.decis) >= len(st.prefix) { // beyond the replayed prefix: check
		res, _ := st.solver.Check(c, nil)
		if res == Unsat {
			st.end("infeasible", "assumption unsatisfiable")
		}
		if res == Unknown {
			st.eng.noteUnknown(st.harness, "assume")
		}
	}
	st.assertGuard(c)
}

// check is the assertion primitive: is NOT c satisfiable on this path?
func (st *State) check(c *Term, what string) {
	st.specDeny("assert")
	st.asserts++
	if c.IsConst() && c.Bool() {
		st.eng.countObligation(st.harness, true)
		return
	}
	vars := st.modelVars()
	res, model := st.solver.Check(mkNot(c), vars)
	switch res {
	case Unsat:
		st.eng.countObligation(st.harness, false)
		return
	case Unknown:
		st.eng.noteUnknown(st.harness, "assert:"+what)
		st.end("abort", "solver unknown on assertion %q", what)
	}
	if st.eng.cfg.StopOnFirst {
		st.fail(what, model)
	}
	// record and continue as if the assertion held (so that further,
	// different violations on this path are still found)
	func() {
		defer func() {
			if r := recover(); r != nil {
				if pe, ok := r.(pathEnd); !ok || pe.kind != "violation" {
					panic(r)
				}
			}
		}()
		st.fail(what, model)
	}()
	st.assume(c)
}

func (st *State) modelVars() []*Term {
	var vars []*Term
	for _, n := range st.nondets {
		vars = append(vars, n.term)
	}
	return vars
}

// fail records a violation with the given model (nil = ask the solver for one).
func (st *State) fail(what string, model []uint64) {
	if model == nil {
		res, m := st.solver.Check(nil, st.modelVars())
		if res != Sat {
			st.end("abort", "cannot obtain a model for failure %q", what)
		}
		model = m
	}
	v := &Violation{Harness: st.harness, What: what, Model: map[string][]uint64{}, Decis: append([]int{}, st.decis...)}
	for i, n := range st.nondets {
		if i < len(model) {
			v.Model[n.tag] = append(v.Model[n.tag], model[i])
		}
	}
	v.Sched = append([]int{}, st.schedLog...)
	v.Threads = len(st.threads)
	for _, e := range st.events {
		v.Trace = append(v.Trace, fmt.Sprintf("%d:t%d:%s", e.Clock, e.Thread, e.Kind))
	}
	st.violation = v
	st.violations = append(st.violations, v)
	st.end("violation", "%s", what)
}

// ---- threads -----------------------------------------------------------------

func (st *State) enabled(except *Thread) []*Thread {
	var out []*Thread
	for _, t := range st.threads {
		if t == except || t.finished {
			continue
		}
		if t.blocked != nil && t.blocked() {
			continue
		}
		out = append(out, t)
	}
	return out
}

func (st *State) anyOtherEnabled(self *Thread) bool {
	for _, t := range st.threads {
		if t == self || t.finished || t.quiesce {
			continue
		}
		if t.blocked != nil && t.blocked() {
			continue
		}
		return true
	}
	return false
}

// schedChoose picks one of n runnable candidates.  Candidate 0 is the default
// of the deterministic scheduler (lowest thread id first); every other pick
// costs one "delay".  With the delay budget used up the default is taken
// (delay-bounded scheduling).
func (st *State) schedChoose(n int, what string) int {
	if n <= 1 {
		return 0
	}
	if st.delays >= st.eng.cfg.Delays {
		return 0
	}
	d := st.choose(n, nil, what)
	st.schedLog = append(st.schedLog, d)
	if d > 0 {
		st.delays++
	}
	return d
}

// switchTo hands the baton to target and parks the current thread.
func (th *Thread) switchTo(target *Thread) {
	st := th.st
	if target == th {
		return
	}
	st.cur = target
	st.clock++
	target.resume <- struct{}{}
	<-th.resume
	if st.dead {
		panic(pathEnd{kind: "killed"})
	}
}

// yield is a scheduling point at which the current thread could be preempted.
func (th *Thread) yield(what string) {
	st := th.st
	st.specDeny("scheduling point")
	if len(st.threads) == 1 {
		return
	}
	if st.preempt >= st.eng.cfg.Preempt {
		return
	}
	others := st.enabled(th)
	if len(others) == 0 {
		return
	}
	d := st.schedChoose(len(others)+1, "sched:"+what)
	if d == 0 {
		return
	}
	st.preempt++
	th.switchTo(others[d-1])
}

// block parks the thread until cond() is false.
func (th *Thread) block(cond func() bool, what string) {
	st := th.st
	if cond() {
		st.specDeny("blocking")
	}
	for cond() {
		th.blocked = cond
		th.what = what
		others := st.enabled(th)
		if len(others) == 0 {
			// nobody can run: deadlock (for this thread at least)
			th.blocked = nil
			st.deadlock(th, what)
		}
		d := st.schedChoose(len(others), "sched-block:"+what)
		th.switchTo(others[d])
		th.blocked = nil
	}
	th.what = ""
}

func (st *State) deadlock(th *Thread, what string) {
	var sb strings.Builder
	for _, t := range st.threads {
		if !t.finished {
			fmt.Fprintf(&sb, " t%d(%s):%s", t.id, t.name, t.what)
		}
	}
	st.fail("deadlock: no runnable thread; blocked:"+sb.String(), nil)
}

// quiesceWait lets every other thread run until none is enabled.
func (th *Thread) quiesceWait() {
	st := th.st
	th.quiesce = true
	for st.anyOtherEnabled(th) {
		th.blocked = func() bool { return st.anyOtherEnabled(th) }
		th.what = "quiesce"
		others := st.enabled(th)
		d := st.schedChoose(len(others), "sched-q")
		th.switchTo(others[d])
		th.blocked = nil
	}
	th.quiesce = false
	th.what = ""
}

// spawn creates a new engine thread running body.
func (st *State) spawn(name string, body func(th *Thread)) *Thread {
	t := &Thread{st: st, id: len(st.threads), resume: make(chan struct{}), name: name}
	st.threads = append(st.threads, t)
	st.wg.Add(1)
	go func() {
		defer st.wg.Done()
		<-t.resume
		if st.dead {
			t.finished = true
			return
		}
		defer func() {
			t.finished = true
			r := recover()
			if r != nil {
				pe, ok := r.(pathEnd)
				if !ok {
					if gp, isGo := r.(goPanic); isGo {
						pe = st.unhandledPanic(gp)
					} else {
						pe = pathEnd{kind: "abort", msg: fmt.Sprintf("engine error in thread %s: %v\n%s", name, r, debug.Stack())}
					}
				}
				if pe.kind == "killed" {
					return
				}
				st.mu.Lock()
				if st.outcome == nil {
					st.outcome = &pe
				}
				st.mu.Unlock()
				// wake main so that it ends the path
				st.dead = true
				st.cur = st.threads[0]
				st.threads[0].resume <- struct{}{}
				return
			}
			// normal thread exit: pass the baton
			others := st.enabled(t)
			if len(others) == 0 {
				// everyone else is blocked: the main thread must be among them
				// (it parks until the path ends). Report deadlock unless main
				// is waiting for quiescence, which enabled() already handles.
				st.mu.Lock()
				if st.outcome == nil {
					pe := st.deadlockEnd()
					st.outcome = &pe
				}
				st.mu.Unlock()
				st.dead = true
				st.cur = st.threads[0]
				st.threads[0].resume <- struct{}{}
				return
			}
			d := 0
			if len(others) > 1 {
				func() {
					defer func() {
						if r := recover(); r != nil {
							if pe, ok := r.(pathEnd); ok {
								st.mu.Lock()
								if st.outcome == nil {
									st.outcome = &pe
								}
								st.mu.Unlock()
								st.dead = true
								d = -1
							} else {
								panic(r)
							}
						}
					}()
					d = st.schedChoose(len(others), "sched-exit")
				}()
			}
			if d < 0 {
				st.cur = st.threads[0]
				st.threads[0].resume <- struct{}{}
				return
			}
			st.cur = others[d]
			st.clock++
			others[d].resume <- struct{}{}
		}()
		body(t)
	}()
	return t
}

func (st *State) deadlockEnd() pathEnd {
	var sb strings.Builder
	for _, t := range st.threads {
		if !t.finished {
			fmt.Fprintf(&sb, " t%d(%s):%s", t.id, t.name, t.what)
		}
	}
	// a model is needed for replay
	func() {
		defer func() { recover() }()
		st.fail("deadlock: no runnable thread; blocked:"+sb.String(), nil)
	}()
	return pathEnd{kind: "violation", msg: "deadlock:" + sb.String()}
}

func (st *State) unhandledPanic(gp goPanic) pathEnd {
	msg := "unexpected panic: " + gp.describe()
	func() {
		defer func() { recover() }()
		st.fail(msg, nil)
	}()
	if st.violation != nil {
		return pathEnd{kind: "violation", msg: msg}
	}
	return pathEnd{kind: "abort", msg: "panic without model: " + msg}
}

// killThreads ends every parked thread of this path.
func (st *State) killThreads() {
	st.dead = true
	for _, t := range st.threads[1:] {
		if !t.finished {
			t.resume <- struct{}{}
		}
	}
	st.wg.Wait()
}

func (st *State) event(th *Thread, kind string, args ...Value) {
	st.events = append(st.events, Event{Clock: st.clock, Thread: th.id, Kind: kind, Args: args})
}

func sortedKeys(m map[string]bool) []string {
	var out []string
	for k := range m {
		out = append(out, k)
	}
	sort.Strings(out)
	return out
}
