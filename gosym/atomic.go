package main

// sync/atomic primitives (assembly in the real runtime): plain reads and writes
// here, because the engine runs one thread at a time and switches only at
// blocking operations.

import (
	"golang.org/x/tools/go/ssa"
)

func registerAtomic(e *Engine) {
	reg := func(name string, f Intrinsic) { e.intrinsics[name] = f }
	cell := func(th *Thread, v Value) *Value {
		p := v.(*Value)
		if p == nil {
			th.runtimePanic("nil pointer dereference", "atomic operation on nil pointer")
		}
		return p
	}
	for _, ty := range []string{"Int32", "Int64", "Uint32", "Uint64", "Uintptr"} {
		ty := ty
		reg("sync/atomic.Load"+ty, func(th *Thread, fn *ssa.Function, a []Value) Value { return *cell(th, a[0]) })
		reg("sync/atomic.Store"+ty, func(th *Thread, fn *ssa.Function, a []Value) Value { *cell(th, a[0]) = a[1]; return nil })
		reg("sync/atomic.Add"+ty, func(th *Thread, fn *ssa.Function, a []Value) Value {
			p := cell(th, a[0])
			n := mkBin("bvadd", (*p).(*Term), a[1].(*Term))
			*p = n
			return n
		})
		reg("sync/atomic.Swap"+ty, func(th *Thread, fn *ssa.Function, a []Value) Value {
			p := cell(th, a[0])
			old := *p
			*p = a[1]
			return old
		})
		reg("sync/atomic.CompareAndSwap"+ty, func(th *Thread, fn *ssa.Function, a []Value) Value {
			p := cell(th, a[0])
			if th.st.branch(mkEq((*p).(*Term), a[1].(*Term)), "cas") {
				*p = a[2]
				return tTrue
			}
			return tFalse
		})
	}
	reg("sync/atomic.LoadPointer", func(th *Thread, fn *ssa.Function, a []Value) Value { return *cell(th, a[0]) })
	reg("sync/atomic.StorePointer", func(th *Thread, fn *ssa.Function, a []Value) Value { *cell(th, a[0]) = a[1]; return nil })
	reg("sync/atomic.SwapPointer", func(th *Thread, fn *ssa.Function, a []Value) Value {
		p := cell(th, a[0])
		old := *p
		*p = a[1]
		return old
	})
	reg("sync/atomic.CompareAndSwapPointer", func(th *Thread, fn *ssa.Function, a []Value) Value {
		p := cell(th, a[0])
		if (*p).(*Value) == a[1].(*Value) {
			*p = a[2]
			return tTrue
		}
		return tFalse
	})
}
