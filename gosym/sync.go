package main

// sync.Mutex, sync.WaitGroup, context and semaphore intrinsics.

import (
	"go/types"

	"golang.org/x/tools/go/ssa"
)

type mutexState struct {
	locked bool
	holder *Thread
	id     int
}

type wgState struct {
	n  int
	id int
}

type semState struct {
	size, cur int64
}

func (st *State) mutex(p *Value) *mutexState {
	m := st.mutexes[p]
	if m == nil {
		m = &mutexState{id: len(st.mutexes) + 1}
		st.mutexes[p] = m
	}
	return m
}

func (st *State) waitGroup(p *Value) *wgState {
	w := st.wgs[p]
	if w == nil {
		w = &wgState{id: len(st.wgs) + 1}
		st.wgs[p] = w
	}
	return w
}

// CtxObj is an engine context.Context.
type CtxObj struct {
	parent   *CtxObj
	done     *ChanVal // nil for Background
	err      Value    // Iface; nil error until cancelled
	key, val Value    // WithValue
	children []*CtxObj
	isCancel bool
	id       int
	deadline bool
}

func (c *CtxObj) cancelled() bool {
	for x := c; x != nil; x = x.parent {
		if x.isCancel && x.done.closed {
			return true
		}
	}
	return false
}

func (th *Thread) ctxIface(c *CtxObj) Value {
	return Iface{t: th.st.eng.ctxType(), v: &Opaque{kind: "ctx", data: c}}
}

func (e *Engine) ctxType() types.Type {
	p := e.P.pkgs["context"]
	return types.NewPointer(p.Type("cancelCtx").Type())
}

func ctxOf(th *Thread, v Value) *CtxObj {
	iv, ok := v.(Iface)
	if !ok || iv.t == nil {
		th.runtimePanic("nil pointer dereference", "nil context")
	}
	o, ok := iv.v.(*Opaque)
	if !ok || o.kind != "ctx" {
		th.st.abort("foreign context implementation %v", iv.t)
	}
	return o.data.(*CtxObj)
}

func (th *Thread) ctxCancel(c *CtxObj, err Value) {
	if c.done.closed {
		return
	}
	c.done.closed = true
	c.err = err
	for _, ch := range c.children {
		th.ctxCancel(ch, err)
	}
}

func (th *Thread) ctxErrValue(name string) Value {
	p := th.st.eng.P.pkgs["context"]
	g := p.Var(name)
	return copyVal(*th.st.globalAddr(th, g))
}

func registerSync(e *Engine) {
	reg := func(name string, f Intrinsic) { e.intrinsics[name] = f }

	reg("(*sync.Mutex).Lock", func(th *Thread, fn *ssa.Function, a []Value) Value {
		p := a[0].(*Value)
		if p == nil {
			th.runtimePanic("nil pointer dereference", "Lock of nil mutex")
		}
		m := th.st.mutex(p)
		th.yield("lock")
		th.block(func() bool { return m.locked }, "mutex lock")
		m.locked, m.holder = true, th
		return nil
	})
	reg("(*sync.Mutex).TryLock", func(th *Thread, fn *ssa.Function, a []Value) Value {
		m := th.st.mutex(a[0].(*Value))
		if m.locked {
			return tFalse
		}
		m.locked, m.holder = true, th
		return tTrue
	})
	reg("(*sync.Mutex).Unlock", func(th *Thread, fn *ssa.Function, a []Value) Value {
		p := a[0].(*Value)
		m := th.st.mutex(p)
		if !m.locked {
			// fatal error: sync: unlock of unlocked mutex (not recoverable)
			th.st.fail("fatal: sync: unlock of unlocked mutex", nil)
		}
		m.locked, m.holder = false, nil
		th.yield("unlock")
		return nil
	})
	reg("(*sync.WaitGroup).Add", func(th *Thread, fn *ssa.Function, a []Value) Value {
		w := th.st.waitGroup(a[0].(*Value))
		d := th.concreteIndex(a[1].(*Term), "wg.Add")
		w.n += d
		if w.n < 0 {
			panic(goPanic{v: Iface{t: types.Typ[types.String], v: concreteStr("sync: negative WaitGroup counter")}, kind: "explicit: sync: negative WaitGroup counter"})
		}
		if d < 0 {
			th.yield("wg-done")
		}
		return nil
	})
	reg("(*sync.WaitGroup).Done", func(th *Thread, fn *ssa.Function, a []Value) Value {
		w := th.st.waitGroup(a[0].(*Value))
		w.n--
		if w.n < 0 {
			panic(goPanic{v: Iface{t: types.Typ[types.String], v: concreteStr("sync: negative WaitGroup counter")}, kind: "explicit: sync: negative WaitGroup counter"})
		}
		th.yield("wg-done")
		return nil
	})
	reg("(*sync.WaitGroup).Wait", func(th *Thread, fn *ssa.Function, a []Value) Value {
		w := th.st.waitGroup(a[0].(*Value))
		th.yield("wg-wait")
		th.block(func() bool { return w.n > 0 }, "WaitGroup.Wait")
		return nil
	})
	reg("(*sync.Once).Do", func(th *Thread, fn *ssa.Function, a []Value) Value {
		p := a[0].(*Value)
		m := th.st.mutex(p) // reuse: locked == done
		if m.locked {
			return nil
		}
		m.locked = true
		th.callValue(a[1], nil, "once")
		return nil
	})
}

func registerContext(e *Engine) {
	reg := func(name string, f Intrinsic) { e.intrinsics[name] = f }
	background := func(th *Thread, fn *ssa.Function, a []Value) Value {
		if th.st.bgCtx == nil {
			th.st.bgCtx = &CtxObj{}
		}
		return th.ctxIface(th.st.bgCtx)
	}
	reg("context.Background", background)
	reg("context.TODO", background)
	newCancel := func(th *Thread, parent *CtxObj) (*CtxObj, Value) {
		st := th.st
		st.chanSeq++
		c := &CtxObj{parent: parent, isCancel: true, done: &ChanVal{id: st.chanSeq, elem: types.NewStruct(nil, nil)}, id: st.chanSeq}
		// link to the nearest cancellable ancestor
		for x := parent; x != nil; x = x.parent {
			if x.isCancel {
				if x.done.closed {
					c.done.closed = true
					c.err = x.err
				} else {
					x.children = append(x.children, c)
				}
				break
			}
		}
		cancel := &Native{name: "context.CancelFunc", fn: func(th *Thread, args []Value) Value {
			th.yield("ctx-cancel")
			th.ctxCancel(c, th.ctxErrValue("Canceled"))
			return nil
		}}
		return c, cancel
	}
	reg("context.WithCancel", func(th *Thread, fn *ssa.Function, a []Value) Value {
		c, cancel := newCancel(th, ctxOf(th, a[0]))
		return Tuple{th.ctxIface(c), cancel}
	})
	reg("context.WithValue", func(th *Thread, fn *ssa.Function, a []Value) Value {
		parent := ctxOf(th, a[0])
		return th.ctxIface(&CtxObj{parent: parent, key: a[1], val: a[2]})
	})
	// harness helper: a context that ends with DeadlineExceeded when fired
	e.intrinsics["prim:verifDeadlineCtx"] = func(th *Thread, fn *ssa.Function, a []Value) Value {
		c, _ := newCancel(th, ctxOf(th, a[0]))
		fire := &Native{name: "deadline-fire", fn: func(th *Thread, args []Value) Value {
			th.yield("ctx-deadline")
			th.ctxCancel(c, th.ctxErrValue("DeadlineExceeded"))
			return nil
		}}
		return Tuple{th.ctxIface(c), fire}
	}
	e.intrinsics["prim:ctxCancelled"] = func(th *Thread, fn *ssa.Function, a []Value) Value {
		return mkBool(ctxOf(th, a[0]).cancelled())
	}
}

// invokeNative intercepts interface method calls on engine objects.
func (th *Thread) invokeNative(recv Iface, m *types.Func) *Native {
	return th.invokeNativeByName(recv, m.Name())
}

func (th *Thread) invokeNativeByName(recv Iface, name string) *Native {
	o, ok := recv.v.(*Opaque)
	if !ok {
		return nil
	}
	switch o.kind {
	case "ctx":
		c := o.data.(*CtxObj)
		switch name {
		case "Done":
			return &Native{name: "ctx.Done", fn: func(th *Thread, a []Value) Value {
				for x := c; x != nil; x = x.parent {
					if x.isCancel {
						return x.done
					}
				}
				return (*ChanVal)(nil)
			}}
		case "Err":
			return &Native{name: "ctx.Err", fn: func(th *Thread, a []Value) Value {
				for x := c; x != nil; x = x.parent {
					if x.isCancel {
						if x.done.closed {
							return x.err
						}
						return Iface{}
					}
				}
				return Iface{}
			}}
		case "Value":
			return &Native{name: "ctx.Value", fn: func(th *Thread, a []Value) Value {
				key := a[1]
				for x := c; x != nil; x = x.parent {
					if x.key != nil {
						if e := th.equals(x.key, key); th.st.branch(e, "ctx-key") {
							return x.val
						}
					}
				}
				return Iface{}
			}}
		case "Deadline":
			return &Native{name: "ctx.Deadline", fn: func(th *Thread, a []Value) Value {
				return Tuple{zero(th.st.eng.P.pkgs["time"].Type("Time").Type()), tFalse}
			}}
		}
	case "rtype":
		return th.rtypeMethod(o, name)
	case "bytesbody":
		b := o.data.(*bytesBody)
		switch name {
		case "Close":
			return &Native{name: "body.Close", fn: func(th *Thread, a []Value) Value { b.closed++; return nilError() }}
		case "Read":
			return &Native{name: "body.Read", fn: func(th *Thread, a []Value) Value {
				p := a[1].(Slice).a
				if b.pos >= len(b.data) {
					return Tuple{mkBV(64, 0), copyVal(*th.st.globalAddr(th, th.st.eng.P.pkgs["io"].Var("EOF")))}
				}
				n := copy(p, b.data[b.pos:])
				b.pos += n
				return Tuple{mkBV(64, uint64(n)), nilError()}
			}}
		}
	}
	th.st.abort("method %s on engine object %s not modelled", name, o.kind)
	return nil
}
