package main

// Path exploration: work queue of decision prefixes, parallel workers, result
// aggregation.

import (
	"fmt"
	"go/types"
	"runtime/debug"
	"sort"
	"strings"
	"sync"
	"time"

	"golang.org/x/tools/go/ssa"
)

type Config struct {
	Unwind        int // max visits of one block per frame
	MaxDepth      int
	MaxSteps      int
	MaxPaths      int
	MaxConcretize int
	MaxAlloc      int
	Preempt       int  // preemption bound for threaded runs
	MapOrders     bool // explore every map iteration order
	Workers       int
	SolverKind    string
	TimeoutMs     int
	StopOnFirst   bool
	DecodedStrMax int
	Thorough      bool
	Delays        int  // delay bound for the scheduler (deviations from the default order)
	Summarize     bool
}

func defaultConfig() Config {
	return Config{Unwind: 300, MaxDepth: 200, MaxSteps: 3_000_000, MaxPaths: 2_000_000, MaxConcretize: 64,
		MaxAlloc: 1 << 16, Preempt: 0, MapOrders: true, Workers: 16, SolverKind: "z3", TimeoutMs: 30000, StopOnFirst: true,
		DecodedStrMax: 2, Summarize: true, Delays: 2}
}

type HarnessResult struct {
	Name        string
	Paths       int
	Infeasible  int
	Obligations int // assertion checks that needed the solver
	Trivial     int // assertion checks decided by constant folding
	Violations  []*Violation
	Aborts      map[string]int
	Unwinds     map[string]int
	Unknowns    map[string]int
	Reach       map[string]int
	Entered     map[string]bool
	Notes       map[string]bool
	Samples     []string
	Stats       SolverStats
	MaxVisits   int
	Steps       int64
	SchedPoints int
	Wall        time.Duration
	Budget      bool
	Summarized  int
	CacheHits   int
	ForkSites   map[string]int
	Pruned      int
	PrunedWhy   map[string]int
	MaxThreads  int
}

type Engine struct {
	P          *Program
	cfg        Config
	sizes      types.Sizes
	intrinsics map[string]Intrinsic
	prefixIx   []prefixIntrinsic

	mu      sync.Mutex
	cond    *sync.Cond
	queue   [][]int
	active  int
	stop    bool
	cur     *HarnessResult
	started int
}

type Intrinsic func(th *Thread, fn *ssa.Function, args []Value) Value

type prefixIntrinsic struct {
	prefix string
	fn     Intrinsic
}

func newEngine(P *Program, cfg Config) *Engine {
	e := &Engine{P: P, cfg: cfg, sizes: types.SizesFor("gc", "amd64"), intrinsics: map[string]Intrinsic{}}
	e.cond = sync.NewCond(&e.mu)
	registerIntrinsics(e)
	return e
}

func (e *Engine) lookupIntrinsic(fn *ssa.Function) (Intrinsic, bool) {
	ix, _, ok := e.lookupIntrinsicKey(fn)
	return ix, ok
}

func (e *Engine) lookupIntrinsicKey(fn *ssa.Function) (Intrinsic, string, bool) {
	name := fn.String()
	if ix, ok := e.intrinsics[name]; ok {
		return ix, name, true
	}
	// harness primitives are matched by bare name in any module package
	if fn.Pkg != nil && e.P.isModulePkg(fn.Pkg.Pkg) && fn.Signature.Recv() == nil {
		if ix, ok := e.intrinsics["prim:"+fn.Name()]; ok {
			return ix, "prim:" + fn.Name(), true
		}
	}
	if o := fn.Origin(); o != nil {
		if ix, ok := e.intrinsics[o.String()]; ok {
			return ix, o.String(), true
		}
	}
	return nil, "", false
}

func (e *Engine) noteUnknown(h, what string) {
	e.mu.Lock()
	e.cur.Unknowns[what]++
	e.mu.Unlock()
}

func (e *Engine) countObligation(h string, trivial bool) {
	e.mu.Lock()
	if trivial {
		e.cur.Trivial++
	} else {
		e.cur.Obligations++
	}
	e.mu.Unlock()
}

// RunHarness explores every path of the named harness function.
func (e *Engine) RunHarness(pkgPath, name string) (*HarnessResult, error) {
	fn := e.P.lookupFunc(pkgPath, name)
	if fn == nil {
		if len(e.P.dropped) > 0 {
			return nil, fmt.Errorf("harness %s.%s does not build against the tree (harness files left out: %s)", pkgPath, name, strings.Join(e.P.dropped, ", "))
		}
		return nil, fmt.Errorf("harness %s.%s not found", pkgPath, name)
	}
	res := &HarnessResult{Name: name, Aborts: map[string]int{}, Unwinds: map[string]int{}, Unknowns: map[string]int{},
		ForkSites: map[string]int{}, PrunedWhy: map[string]int{}, Reach: map[string]int{}, Entered: map[string]bool{}, Notes: map[string]bool{}}
	t0 := time.Now()
	e.mu.Lock()
	e.cur = res
	e.queue = [][]int{{}}
	e.active = 0
	e.stop = false
	e.started = 0
	e.mu.Unlock()

	var wg sync.WaitGroup
	var solverErr error
	for w := 0; w < e.cfg.Workers; w++ {
		wg.Add(1)
		go func(w int) {
			defer wg.Done()
			solver, err := NewSolver(e.cfg.SolverKind, e.cfg.TimeoutMs)
			if err != nil {
				e.mu.Lock()
				solverErr = err
				e.stop = true
				e.cond.Broadcast()
				e.mu.Unlock()
				return
			}
			defer func() {
				e.mu.Lock()
				res.Stats.Sat += solver.stats.Sat
				res.Stats.Unsat += solver.stats.Unsat
				res.Stats.Unknown += solver.stats.Unknown
				res.Stats.Errors += solver.stats.Errors
				res.Stats.Time += solver.stats.Time
				for _, s := range solver.errs {
					res.Aborts["solver: "+s]++
				}
				e.mu.Unlock()
				solver.Close()
			}()
			served := 0
			for {
				prefix, ok := e.nextWork()
				if !ok {
					return
				}
				e.runPath(fn, name, prefix, solver, res)
				served++
				if served%1500 == 0 && !solver.dead {
					// a long-lived z3 -in process degrades (and was seen to stop
					// answering get-value after tens of MB of push/pop traffic):
					// recycle it periodically
					e.mu.Lock()
					res.Stats.Sat += solver.stats.Sat
					res.Stats.Unsat += solver.stats.Unsat
					res.Stats.Unknown += solver.stats.Unknown
					res.Stats.Errors += solver.stats.Errors
					res.Stats.Time += solver.stats.Time
					e.mu.Unlock()
					solver.Close()
					ns, err := NewSolver(e.cfg.SolverKind, e.cfg.TimeoutMs)
					if err == nil {
						solver = ns
					} else {
						solver.dead = true
					}
				}
				if solver.dead {
					// replace a solver that was killed by the watchdog
					e.mu.Lock()
					res.Stats.Sat += solver.stats.Sat
					res.Stats.Unsat += solver.stats.Unsat
					res.Stats.Unknown += solver.stats.Unknown
					res.Stats.Errors += solver.stats.Errors + 1
					res.Stats.Time += solver.stats.Time
					res.Aborts["solver killed by watchdog (hard query)"]++
					e.mu.Unlock()
					solver.Close()
					ns, err := NewSolver(e.cfg.SolverKind, e.cfg.TimeoutMs)
					if err != nil {
						e.mu.Lock()
						solverErr = err
						e.stop = true
						e.active--
						e.cond.Broadcast()
						e.mu.Unlock()
						return
					}
					solver = ns
				}
				e.mu.Lock()
				e.active--
				e.cond.Broadcast()
				e.mu.Unlock()
			}
		}(w)
	}
	wg.Wait()
	res.Wall = time.Since(t0)
	if solverErr != nil {
		return res, solverErr
	}
	return res, nil
}

func (e *Engine) nextWork() ([]int, bool) {
	e.mu.Lock()
	defer e.mu.Unlock()
	for {
		if e.stop {
			return nil, false
		}
		if n := len(e.queue); n > 0 {
			if e.started >= e.cfg.MaxPaths {
				e.cur.Budget = true
				e.stop = true
				e.cond.Broadcast()
				return nil, false
			}
			p := e.queue[n-1]
			e.queue = e.queue[:n-1]
			e.active++
			e.started++
			return p, true
		}
		if e.active == 0 {
			e.cond.Broadcast()
			return nil, false
		}
		e.cond.Wait()
	}
}

func (e *Engine) runPath(fn *ssa.Function, name string, prefix []int, solver *Solver, res *HarnessResult) {
	st := &State{eng: e, solver: solver, harness: name, prefix: prefix,
		globals: map[*ssa.Global]*Value{}, initDone: map[*ssa.Package]bool{}, tagCount: map[string]int{},
		reach: map[string]bool{}, entered: map[string]bool{}, mutexes: map[*Value]*mutexState{}, wgs: map[*Value]*wgState{},
		sems: map[*Value]*semState{}, known: map[[2]uint64]bool{}, strIntern: map[string]uint64{}, ghost: map[string]Value{}, typeIDs: map[string]int{}}
	main := &Thread{st: st, id: 0, resume: make(chan struct{}), name: "main"}
	st.threads = []*Thread{main}
	st.cur = main
	solver.BeginPath()
	var end pathEnd
	func() {
		defer func() {
			r := recover()
			if r == nil {
				end = pathEnd{kind: "done"}
				return
			}
			switch r := r.(type) {
			case pathEnd:
				end = r
			case goPanic:
				end = st.unhandledPanic(r)
			default:
				end = pathEnd{kind: "abort", msg: fmt.Sprintf("engine error: %v\n%s", r, trimStack(debug.Stack()))}
			}
		}()
		main.callFn(fn, nil, nil)
		// let the remaining threads run to quiescence so that their assertions count
		if len(st.threads) > 1 {
			main.quiesceWait()
		}
	}()
	st.mu.Lock()
	if st.outcome != nil && (end.kind == "killed" || end.kind == "done") {
		end = *st.outcome
	}
	st.mu.Unlock()
	st.killThreads()
	solver.EndPath()

	e.mu.Lock()
	defer e.mu.Unlock()
	res.Paths++
	res.Steps += int64(st.steps)
	res.Summarized += st.summarized
	res.CacheHits += st.cacheHits
	for _, f := range st.forkSites {
		res.ForkSites[f]++
	}
	if st.maxVisits > res.MaxVisits {
		res.MaxVisits = st.maxVisits
	}
	if len(st.threads) > res.MaxThreads {
		res.MaxThreads = len(st.threads)
	}
	res.SchedPoints += len(st.schedLog)
	for k := range st.entered {
		res.Entered[k] = true
	}
	for _, n := range st.notes {
		res.Notes[n] = true
	}
	if end.kind != "violation" {
		res.Violations = append(res.Violations, st.violations...)
	}
	switch end.kind {
	case "done":
		for k := range st.reach {
			res.Reach[k]++
		}
		if len(res.Samples) < 5 {
			res.Samples = append(res.Samples, st.sample())
		}
	case "infeasible":
		res.Infeasible++
	case "pruned":
		res.Pruned++
		res.PrunedWhy[end.msg]++
	case "violation":
		if st.violation != nil {
			res.Violations = append(res.Violations, st.violation)
		} else {
			res.Aborts["violation without model: "+end.msg]++
		}
		if e.cfg.StopOnFirst {
			e.stop = true
			e.cond.Broadcast()
		}
	case "unwind", "budget":
		res.Unwinds[end.msg]++
	default:
		res.Aborts[firstLine(end.msg, 600)]++
	}
	if end.kind != "violation" || !e.cfg.StopOnFirst {
		for _, f := range st.forks {
			e.queue = append(e.queue, f)
		}
		if len(st.forks) > 0 {
			e.cond.Broadcast()
		}
	}
}

func firstLine(s string, max int) string {
	if len(s) > max {
		s = s[:max]
	}
	return s
}

func trimStack(b []byte) string {
	lines := strings.Split(string(b), "\n")
	var keep []string
	for _, l := range lines {
		if strings.Contains(l, "verif/gosym") && !strings.Contains(l, "engine.go") {
			keep = append(keep, strings.TrimSpace(l))
		}
		if len(keep) >= 12 {
			break
		}
	}
	return strings.Join(keep, " | ")
}

func (st *State) sample() string {
	var parts []string
	for _, n := range st.nondets {
		parts = append(parts, n.term.name)
		if len(parts) >= 8 {
			break
		}
	}
	labels := sortedKeys(st.reach)
	return fmt.Sprintf("path decisions=%v nondet=[%s] reach=%v threads=%d", clip(st.decis, 24), strings.Join(parts, ","), labels, len(st.threads))
}

func clip(d []int, n int) []int {
	if len(d) > n {
		return d[:n]
	}
	return d
}

func sortedCounts(m map[string]int) []string {
	var ks []string
	for k := range m {
		ks = append(ks, k)
	}
	sort.Strings(ks)
	var out []string
	for _, k := range ks {
		out = append(out, fmt.Sprintf("%s (x%d)", k, m[k]))
	}
	return out
}
