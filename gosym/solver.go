package main

// A long-lived SMT solver process (z3 -in by default) driven over a pipe.

import (
	"bufio"
	"fmt"
	"io"
	"os"
	"os/exec"
	"strconv"
	"strings"
	"time"
)

type SatResult int

const (
	Unsat SatResult = iota
	Sat
	Unknown
)

func (r SatResult) String() string { return [...]string{"unsat", "sat", "unknown"}[r] }

type SolverStats struct {
	Sat, Unsat, Unknown int
	Errors              int
	Time                time.Duration
}

type Solver struct {
	cmd   *exec.Cmd
	in    io.WriteCloser
	out   *bufio.Reader
	gen   int
	next  int
	decl  map[string]int // var name -> generation declared in
	stats SolverStats
	log   io.Writer // optional transcript
	sb    strings.Builder
	errs  []string
	kind  string
	dead  bool
	timeoutMs int
}

const smtPrelude = `(set-option :print-success false)
(set-option :produce-models true)
(declare-fun tk_kind ((_ BitVec 64) (_ BitVec 64)) (_ BitVec 8))
(declare-fun tk_len ((_ BitVec 64) (_ BitVec 64)) (_ BitVec 64))
(declare-fun tk_b0 ((_ BitVec 64) (_ BitVec 64)) (_ BitVec 8))
(declare-fun tk_b1 ((_ BitVec 64) (_ BitVec 64)) (_ BitVec 8))
(declare-fun tk_b2 ((_ BitVec 64) (_ BitVec 64)) (_ BitVec 8))
(declare-fun tk_b3 ((_ BitVec 64) (_ BitVec 64)) (_ BitVec 8))
(declare-fun tk_str ((_ BitVec 64) (_ BitVec 64)) (_ BitVec 64))
(declare-fun str_tok ((_ BitVec 64)) (_ BitVec 64))
(declare-fun tk_ctl ((_ BitVec 64) (_ BitVec 64)) (_ BitVec 8))
(declare-fun tk_clen ((_ BitVec 64) (_ BitVec 64)) (_ BitVec 64))
(declare-fun tk_cb1 ((_ BitVec 64) (_ BitVec 64)) (_ BitVec 8))
(declare-fun tk_cb2 ((_ BitVec 64) (_ BitVec 64)) (_ BitVec 8))
(declare-fun tk_cb3 ((_ BitVec 64) (_ BitVec 64)) (_ BitVec 8))
`

func NewSolver(kind string, timeoutMs int) (*Solver, error) {
	var cmd *exec.Cmd
	switch kind {
	case "", "z3":
		cmd = exec.Command("z3", "-in", fmt.Sprintf("-t:%d", timeoutMs))
	case "z3-new":
		cmd = exec.Command("z3-new", "-in", fmt.Sprintf("-t:%d", timeoutMs))
	case "cvc5":
		cmd = exec.Command("cvc5", "--incremental", "--lang=smt2", fmt.Sprintf("--tlimit-per=%d", timeoutMs), "--produce-models")
	default:
		return nil, fmt.Errorf("unknown solver %q", kind)
	}
	in, err := cmd.StdinPipe()
	if err != nil {
		return nil, err
	}
	out, err := cmd.StdoutPipe()
	if err != nil {
		return nil, err
	}
	cmd.Stderr = nil
	if err := cmd.Start(); err != nil {
		return nil, err
	}
	s := &Solver{cmd: cmd, in: in, out: bufio.NewReaderSize(out, 1<<16), decl: map[string]int{}, kind: kind, timeoutMs: timeoutMs}
	if dir := os.Getenv("GOSYM_SOLVERLOG"); dir != "" {
		f, _ := os.Create(fmt.Sprintf("%s/solver_%d.smt2", dir, cmd.Process.Pid))
		s.log = f
	}
	if kind == "cvc5" {
		s.send("(set-logic ALL)\n")
	}
	s.send(smtPrelude)
	return s, nil
}

func (s *Solver) Close() {
	if s == nil || s.cmd == nil {
		return
	}
	s.in.Close()
	s.cmd.Process.Kill()
	s.cmd.Wait()
}

func (s *Solver) send(text string) {
	if s.log != nil {
		io.WriteString(s.log, text)
	}
	io.WriteString(s.in, text)
}

func (s *Solver) BeginPath() {
	s.gen++
	s.next = 0
	s.send("(push)\n")
}

func (s *Solver) EndPath() {
	s.send("(pop)\n")
}

// ref returns the name of an already emitted term (this path generation).
func (s *Solver) ref(t *Term) (string, bool) {
	if t.gen == s.gen && t.id != 0 {
		return "t" + strconv.Itoa(t.id), true
	}
	return "", false
}

// define makes sure every large sub-term of t has a definition in the solver
// at the current (path) scope, and returns the text that denotes t.
func (s *Solver) define(t *Term) string {
	s.sb.Reset()
	s.emit(t)
	if s.sb.Len() > 0 {
		s.send(s.sb.String())
		s.sb.Reset()
	}
	var sb strings.Builder
	t.write(&sb, s.ref, 1)
	return sb.String()
}

func (s *Solver) emit(t *Term) {
	switch t.op {
	case "const":
		return
	case "var":
		if s.decl[t.name] != s.gen {
			s.decl[t.name] = s.gen
			fmt.Fprintf(&s.sb, "(declare-const %s %s)\n", t.name, t.sort)
		}
		return
	}
	if t.gen == s.gen && t.id != 0 {
		return
	}
	for _, a := range t.args {
		s.emit(a)
	}
	// every interior node gets a name: output stays linear in DAG size
	s.next++
	t.id, t.gen = 0, s.gen
	var sb strings.Builder
	t.write(&sb, s.ref, 0)
	t.id = s.next
	fmt.Fprintf(&s.sb, "(define-fun t%d () %s %s)\n", t.id, t.sort, sb.String())
}

func (s *Solver) Assert(t *Term) {
	if t.IsConst() && t.Bool() {
		return
	}
	txt := s.define(t)
	s.send("(assert " + txt + ")\n")
}

func (s *Solver) readLine() string {
	line, err := s.out.ReadString('\n')
	if err != nil {
		s.errs = append(s.errs, "solver pipe: "+err.Error())
		s.stats.Errors++
		return "unknown"
	}
	return strings.TrimSpace(line)
}

func (s *Solver) readResult() SatResult {
	for {
		line := s.readLine()
		switch {
		case line == "sat":
			return Sat
		case line == "unsat":
			return Unsat
		case line == "unknown" || line == "timeout":
			return Unknown
		case strings.HasPrefix(line, "(error"):
			s.errs = append(s.errs, line)
			s.stats.Errors++
			// keep reading: the check-sat answer still follows
		case line == "":
		default:
			s.errs = append(s.errs, "unexpected solver output: "+line)
			s.stats.Errors++
			return Unknown
		}
	}
}

// Check decides satisfiability of (path condition AND extra).  When vars is
// non-nil and the answer is sat, the model values of vars are returned.
func (s *Solver) Check(extra *Term, vars []*Term) (SatResult, []uint64) {
	t0 := time.Now()
	defer func() { s.stats.Time += time.Since(t0) }()
	var txt string
	if extra != nil {
		txt = s.define(extra)
	}
	var names []string
	for _, v := range vars {
		names = append(names, s.define(v))
	}
	s.send("(push)\n")
	if extra != nil {
		s.send("(assert " + txt + ")\n")
	}
	s.send("(check-sat)\n")
	// watchdog: z3's soft timeout is not always honoured; a query that does
	// not answer in time kills the solver (the path ends inconclusive and the
	// worker starts a fresh solver)
	killed := false
	wd := time.AfterFunc(time.Duration(s.timeoutMs+15000)*time.Millisecond, func() {
		killed = true
		s.cmd.Process.Kill()
	})
	res := s.readResult()
	wd.Stop()
	if killed {
		s.dead = true
		s.errs = append(s.errs, "solver watchdog: query exceeded the hard time limit")
		res = Unknown
	}
	var model []uint64
	switch res {
	case Sat:
		s.stats.Sat++
		if len(names) > 0 {
			model = s.getValues(vars, names)
		}
	case Unsat:
		s.stats.Unsat++
	default:
		s.stats.Unknown++
	}
	s.send("(pop)\n")
	return res, model
}

func (s *Solver) getValues(vars []*Term, names []string) []uint64 {
	model := make([]uint64, len(names))
	// ask in chunks to keep lines manageable
	for i := 0; i < len(names); i += 50 {
		j := i + 50
		if j > len(names) {
			j = len(names)
		}
		s.send("(get-value (" + strings.Join(names[i:j], " ") + "))\n")
		wd := time.AfterFunc(60*time.Second, func() { s.dead = true; s.cmd.Process.Kill() })
		txt := s.readSexp()
		wd.Stop()
		vals := parseValues(txt)
		if strings.HasPrefix(strings.TrimSpace(txt), "(error") {
			vals = nil
		}
		if len(vals) != j-i {
			s.errs = append(s.errs, "get-value: cannot parse "+txt)
			s.stats.Errors++
			continue
		}
		for k, v := range vals {
			model[i+k] = v
		}
	}
	return model
}

// readSexp reads one balanced s-expression from the solver.
func (s *Solver) readSexp() string {
	var sb strings.Builder
	depth := 0
	started := false
	inStr := false
	for {
		b, err := s.out.ReadByte()
		if err != nil {
			s.errs = append(s.errs, "solver pipe: "+err.Error())
			s.stats.Errors++
			return sb.String()
		}
		sb.WriteByte(b)
		if b == '"' {
			inStr = !inStr
			continue
		}
		if inStr {
			continue
		}
		if b == '(' {
			depth++
			started = true
		} else if b == ')' {
			depth--
			if started && depth == 0 {
				// consume rest of line
				s.out.ReadString('\n')
				return sb.String()
			}
		}
	}
}

// parseValues extracts the value of each (name value) pair, in order.
func parseValues(txt string) []uint64 {
	var out []uint64
	// tokens: find each pair at depth 2
	depth := 0
	start := -1
	for i := 0; i < len(txt); i++ {
		switch txt[i] {
		case '(':
			depth++
			if depth == 2 {
				start = i
			}
		case ')':
			if depth == 2 && start >= 0 {
				pair := txt[start+1 : i]
				out = append(out, parseValue(pair))
				start = -1
			}
			depth--
		}
	}
	return out
}

func parseValue(pair string) uint64 {
	// pair is "<expr> <value>"; the value is the last token (or a (_ bvN w) form)
	pair = strings.TrimSpace(pair)
	if strings.HasSuffix(pair, ")") {
		// (_ bv123 64)
		i := strings.LastIndex(pair, "(_ bv")
		if i >= 0 {
			f := strings.Fields(pair[i+5 : len(pair)-1])
			v, _ := strconv.ParseUint(f[0], 10, 64)
			return v
		}
		return 0
	}
	i := strings.LastIndexAny(pair, " \t\n")
	val := pair[i+1:]
	switch {
	case val == "true":
		return 1
	case val == "false":
		return 0
	case strings.HasPrefix(val, "#x"):
		v, _ := strconv.ParseUint(val[2:], 16, 64)
		return v
	case strings.HasPrefix(val, "#b"):
		v, _ := strconv.ParseUint(val[2:], 2, 64)
		return v
	}
	return 0
}
