package main

// errors.Is / errors.As implemented over interpreter values, following the
// algorithm of package errors (Is/As/Unwrap methods are the interpreted ones).

import (
	"go/types"

	"golang.org/x/tools/go/ssa"
)

func (th *Thread) findMethod(t types.Type, name string) *ssa.Function {
	ms := th.st.eng.P.prog.MethodSets.MethodSet(t)
	for i := 0; i < ms.Len(); i++ {
		sel := ms.At(i)
		if sel.Obj().Name() == name {
			return th.st.eng.P.prog.MethodValue(sel)
		}
	}
	return nil
}

func (th *Thread) errorsIs(err, target Iface) bool {
	if err.t == nil || target.t == nil {
		e := th.equals(err, target)
		return th.st.branch(e, "errors.Is-nil")
	}
	comparable := types.Comparable(target.t)
	return th.errorsIsRec(err, target, comparable, 0)
}

func (th *Thread) errorsIsRec(err, target Iface, comparable bool, depth int) bool {
	if depth > 16 {
		th.st.end("unwind", "errors.Is chain deeper than 16")
	}
	for {
		if comparable {
			if types.Identical(err.t, target.t) || err.t == nil {
				if th.st.branch(th.equals(err, target), "errors.Is-eq") {
					return true
				}
			}
		}
		if m := th.findMethod(err.t, "Is"); m != nil && isErrBoolMethod(m) {
			r := th.callFn(m, []Value{err.v, target}, nil).(*Term)
			if th.st.branch(r, "errors.Is-method") {
				return true
			}
		}
		u := th.findMethod(err.t, "Unwrap")
		if u == nil {
			return false
		}
		res := u.Signature.Results()
		if res.Len() != 1 {
			return false
		}
		if _, isSlice := res.At(0).Type().Underlying().(*types.Slice); isSlice {
			list := th.callFn(u, []Value{err.v}, nil).(Slice)
			for _, e := range list.a {
				ev := e.(Iface)
				if ev.t == nil {
					continue
				}
				if th.errorsIsRec(ev, target, comparable, depth+1) {
					return true
				}
			}
			return false
		}
		next := th.callFn(u, []Value{err.v}, nil).(Iface)
		if next.t == nil {
			return false
		}
		err = next
		depth++
		if depth > 16 {
			th.st.end("unwind", "errors.Is chain deeper than 16")
		}
	}
}

func isErrBoolMethod(m *ssa.Function) bool {
	sig := m.Signature
	if sig.Params().Len() != 1 || sig.Results().Len() != 1 {
		return false
	}
	b, ok := sig.Results().At(0).Type().Underlying().(*types.Basic)
	return ok && b.Kind() == types.Bool
}

func (th *Thread) errorsAs(err Iface, target Iface) bool {
	if err.t == nil {
		return false
	}
	if target.t == nil {
		panic(goPanic{v: Iface{t: types.Typ[types.String], v: concreteStr("errors: target cannot be nil")}, kind: "explicit"})
	}
	pt, ok := target.t.Underlying().(*types.Pointer)
	if !ok {
		panic(goPanic{v: Iface{t: types.Typ[types.String], v: concreteStr("errors: target must be a non-nil pointer")}, kind: "explicit"})
	}
	cell := target.v.(*Value)
	tt := pt.Elem()
	return th.errorsAsRec(err, cell, tt, target, 0)
}

func (th *Thread) errorsAsRec(err Iface, cell *Value, tt types.Type, target Iface, depth int) bool {
	for {
		if depth > 16 {
			th.st.end("unwind", "errors.As chain deeper than 16")
		}
		if it, isIface := tt.Underlying().(*types.Interface); isIface {
			if th.implements(err, it) {
				*cell = err
				return true
			}
		} else if types.Identical(err.t, tt) {
			*cell = copyVal(err.v)
			return true
		}
		if m := th.findMethod(err.t, "As"); m != nil && isErrBoolMethod(m) {
			r := th.callFn(m, []Value{err.v, target}, nil).(*Term)
			if th.st.branch(r, "errors.As-method") {
				return true
			}
		}
		u := th.findMethod(err.t, "Unwrap")
		if u == nil {
			return false
		}
		res := u.Signature.Results()
		if res.Len() != 1 {
			return false
		}
		if _, isSlice := res.At(0).Type().Underlying().(*types.Slice); isSlice {
			list := th.callFn(u, []Value{err.v}, nil).(Slice)
			for _, e := range list.a {
				ev := e.(Iface)
				if ev.t == nil {
					continue
				}
				if th.errorsAsRec(ev, cell, tt, target, depth+1) {
					return true
				}
			}
			return false
		}
		next := th.callFn(u, []Value{err.v}, nil).(Iface)
		if next.t == nil {
			return false
		}
		err = next
		depth++
	}
}
