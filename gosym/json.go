package main

// Contract stubs for encoding/json over ropes and tokens.
//
// What is assumed about encoding/json (and nothing more):
//  * Unmarshal fails iff the text is not valid JSON or a value's kind does not
//    fit the target; JSON null leaves non-pointer targets unchanged and sets
//    pointers/maps/slices to nil; RawMessage targets receive the value's text
//    without surrounding white space; object keys: last duplicate wins;
//    struct field names match case-insensitively.
//  * Marshal output is compact valid JSON without raw control bytes; strings
//    marshal to string values that decode back to the same string; structs
//    marshal field by field honouring `json:"name,omitempty"` and "-";
//    a Marshaler's output is validated and compacted.

import (
	"go/types"
	"reflect"
	"sort"
	"strconv"
	"strings"

	"golang.org/x/tools/go/ssa"
)

func (th *Thread) jsonError(msg string) Value { return mkErrorValue(th, "json: "+msg) }

func registerJSON(e *Engine) {
	reg := func(name string, f Intrinsic) { e.intrinsics[name] = f }
	reg("encoding/json.Unmarshal", func(th *Thread, fn *ssa.Function, a []Value) Value {
		return th.jsonUnmarshal(a[0].(Slice).a, a[1].(Iface), false)
	})
	reg("encoding/json.Marshal", func(th *Thread, fn *ssa.Function, a []Value) Value {
		tk, err := th.jsonMarshal(a[0].(Iface))
		if err != nil {
			return Tuple{Slice{}, err}
		}
		return Tuple{Slice{a: []Value{tk}}, nilError()}
	})
	reg("encoding/json.Valid", func(th *Thread, fn *ssa.Function, a []Value) Value {
		_, ok := th.parseRope(a[0].(Slice).a)
		return mkBool(ok)
	})
	reg("encoding/json.NewDecoder", func(th *Thread, fn *ssa.Function, a []Value) Value {
		cell := new(Value)
		*cell = zero(mustDeref(fn.Signature.Results().At(0).Type()))
		if th.st.decoders == nil {
			th.st.decoders = map[*Value]*decoderState{}
		}
		th.st.decoders[cell] = &decoderState{r: a[0].(Iface)}
		return cell
	})
	reg("(*encoding/json.Decoder).DisallowUnknownFields", func(th *Thread, fn *ssa.Function, a []Value) Value {
		th.st.decoders[a[0].(*Value)].strict = true
		return nil
	})
	reg("(*encoding/json.Decoder).Decode", func(th *Thread, fn *ssa.Function, a []Value) Value {
		d := th.st.decoders[a[0].(*Value)]
		if d == nil {
			th.st.abort("Decode on unknown decoder")
		}
		// only *bytes.Reader sources are modelled (whole text available)
		cell, ok := d.r.v.(*Value)
		if !ok || !strings.HasSuffix(d.r.t.String(), "bytes.Reader") {
			th.st.abort("json.Decoder over %v not modelled (streaming)", d.r.t)
		}
		data := (*cell).(Struct)[0].(Slice).a
		if d.used {
			return mkErrorValue(th, "EOF")
		}
		d.used = true
		return th.jsonUnmarshal(data, a[1].(Iface), d.strict)
	})
	// harness token constructors
	prim := func(name string, f Intrinsic) { e.intrinsics["prim:"+name] = f }
	prim("nondetToken", func(th *Thread, fn *ssa.Function, a []Value) Value {
		return Slice{a: []Value{th.newFreeToken(strArg(th, a[0]))}}
	})
	prim("tokKind", func(th *Thread, fn *ssa.Function, a []Value) Value {
		e := a[0].(Slice).a
		if len(e) != 1 {
			return mkBV(64, kInvalid)
		}
		tk, ok := e[0].(*Token)
		if !ok {
			return mkBV(64, kInvalid)
		}
		if tk.kind >= 0 {
			return mkBV(64, uint64(tk.kind))
		}
		return mkZext(th.tokKind(tk), 64)
	})
	prim("tokString", func(th *Thread, fn *ssa.Function, a []Value) Value {
		return Slice{a: []Value{th.stringToken(a[0].(*StrVal))}}
	})
	prim("tokObject", func(th *Thread, fn *ssa.Function, a []Value) Value {
		keys, vals := a[0].(Slice).a, a[1].(Slice).a
		tk := th.newEngineToken(kObject)
		for i := range keys {
			ve := vals[i].(Slice).a
			if len(ve) != 1 {
				th.st.abort("tokObject: member value is not a single token")
			}
			tk.obj = append(tk.obj, TokMem{key: keys[i].(*StrVal), val: ve[0].(*Token)})
		}
		return Slice{a: []Value{tk}}
	})
	prim("tokArray", func(th *Thread, fn *ssa.Function, a []Value) Value {
		tk := th.newEngineToken(kArray)
		tk.arr = []*Token{}
		for _, v := range a[0].(Slice).a {
			ve := v.(Slice).a
			if len(ve) != 1 {
				th.st.abort("tokArray: element is not a single token")
			}
			tk.arr = append(tk.arr, ve[0].(*Token))
		}
		return Slice{a: []Value{tk}}
	})
	prim("tokLit", func(th *Thread, fn *ssa.Function, a []Value) Value {
		bad := false
		tk := th.literalToken(strArg(th, a[0]), &bad)
		if bad {
			th.st.abort("tokLit: not a JSON literal")
		}
		return Slice{a: []Value{tk}}
	})
	prim("tokSame", func(th *Thread, fn *ssa.Function, a []Value) Value {
		x, y := a[0].(Slice).a, a[1].(Slice).a
		if len(x) == 0 || len(y) == 0 {
			return mkBool(len(x) == len(y))
		}
		return th.ropeEq(x, y)
	})
	// tokParse: parse a byte sequence as JSON (harness oracle side): returns
	// the canonical token or nil when invalid
	prim("tokParse", func(th *Thread, fn *ssa.Function, a []Value) Value {
		tk, ok := th.parseRope(a[0].(Slice).a)
		if !ok {
			return Tuple{Slice{}, tFalse}
		}
		return Tuple{Slice{a: []Value{tk}}, tTrue}
	})
	prim("tokMember", func(th *Thread, fn *ssa.Function, a []Value) Value {
		e := a[0].(Slice).a
		key := a[1].(*StrVal)
		if len(e) == 1 {
			if tk, ok := e[0].(*Token); ok && tk.kind == kObject {
				var found *Token
				for _, m := range tk.obj {
					if th.st.branch(th.strEq(m.key, key), "tokMember") {
						found = m.val
					}
				}
				if found != nil {
					return Tuple{Slice{a: []Value{found}}, tTrue}
				}
			}
		}
		return Tuple{Slice{}, tFalse}
	})
	prim("tokMembers", func(th *Thread, fn *ssa.Function, a []Value) Value {
		e := a[0].(Slice).a
		if len(e) == 1 {
			if tk, ok := e[0].(*Token); ok && tk.kind == kObject {
				return mkBV(64, uint64(len(tk.obj)))
			}
		}
		return mkInt(64, -1)
	})
	prim("tokElems", func(th *Thread, fn *ssa.Function, a []Value) Value {
		e := a[0].(Slice).a
		if len(e) == 1 {
			if tk, ok := e[0].(*Token); ok && tk.kind == kArray && tk.arr != nil {
				out := make([]Value, len(tk.arr))
				for i, x := range tk.arr {
					out[i] = Slice{a: []Value{x}}
				}
				return Tuple{Slice{a: out}, tTrue}
			}
		}
		return Tuple{Slice{}, tFalse}
	})
	prim("tokStringValue", func(th *Thread, fn *ssa.Function, a []Value) Value {
		e := a[0].(Slice).a
		if len(e) == 1 {
			if tk, ok := e[0].(*Token); ok && tk.str != nil {
				return Tuple{tk.str, tTrue}
			}
		}
		return Tuple{&StrVal{}, tFalse}
	})
	prim("tokIntValue", func(th *Thread, fn *ssa.Function, a []Value) Value {
		e := a[0].(Slice).a
		if len(e) == 1 {
			if tk, ok := e[0].(*Token); ok {
				if v, ok := th.tokInt(tk); ok {
					return Tuple{v, tTrue}
				}
			}
		}
		return Tuple{mkBV(64, 0), tFalse}
	})
}

type decoderState struct {
	r      Iface
	strict bool
	used   bool
}

func (th *Thread) tokInt(tk *Token) (*Term, bool) {
	if tk.errv != nil {
		return tk.errv, true
	}
	if tk.lit != "" {
		if n, err := strconv.ParseInt(tk.lit, 10, 64); err == nil {
			return mkInt(64, n), true
		}
	}
	return nil, false
}

// kindIs forks on whether a token has the given kind.
func (th *Thread) kindIs(tk *Token, k int) bool {
	if tk.kind >= 0 {
		return tk.kind == k
	}
	return th.st.branch(mkEq(th.tokKind(tk), mkBV(8, uint64(k))), "tok-kind")
}

// jsonUnmarshal implements json.Unmarshal(data, target).
func (th *Thread) jsonUnmarshal(data []Value, target Iface, strict bool) Value {
	st := th.st
	tk, ok := th.parseRope(data)
	if !ok {
		return th.jsonError("syntax error")
	}
	if target.t == nil {
		return th.jsonError("Unmarshal(nil)")
	}
	pt, isPtr := target.t.Underlying().(*types.Pointer)
	if !isPtr {
		// a non-pointer Unmarshaler or value: InvalidUnmarshalError, except for
		// types whose pointer-free value implements Unmarshaler through a map/slice
		if m := th.findMethod(target.t, "UnmarshalJSON"); m != nil {
			return th.callUnmarshaler(m, target.v, tk)
		}
		return th.jsonError("Unmarshal(non-pointer)")
	}
	cell := target.v.(*Value)
	if cell == nil {
		return th.jsonError("Unmarshal(nil pointer)")
	}
	_ = st
	return th.decodeInto(tk, cell, pt.Elem(), strict)
}

func (th *Thread) callUnmarshaler(m *ssa.Function, recv Value, tk *Token) Value {
	r := th.callFn(m, []Value{recv, Slice{a: []Value{tk}}}, nil)
	return r
}

// decodeInto stores the JSON value tk into *cell of static type t.
func (th *Thread) decodeInto(tk *Token, cell *Value, t types.Type, strict bool) Value {
	st := th.st
	isNull := th.kindIs(tk, kNull)
	// Unmarshaler on the pointer type
	if _, isIface := t.Underlying().(*types.Interface); !isIface {
		if m := th.findMethod(types.NewPointer(t), "UnmarshalJSON"); m != nil {
			if _, isP := t.Underlying().(*types.Pointer); isP && isNull {
				*cell = zero(t)
				return nilError()
			}
			if _, isP := t.Underlying().(*types.Pointer); isP {
				// **T where *T is the Unmarshaler: allocate when nil
				inner := (*cell).(*Value)
				if inner == nil {
					inner = new(Value)
					*inner = zero(mustDeref(t))
					*cell = inner
				}
			}
			if _, isNamed := t.(*types.Named); isNamed || true {
				return th.callUnmarshaler(m, cell, tk)
			}
		}
	}
	switch u := t.Underlying().(type) {
	case *types.Pointer:
		if isNull {
			*cell = (*Value)(nil)
			return nilError()
		}
		inner := (*cell).(*Value)
		if inner == nil {
			inner = new(Value)
			*inner = zero(u.Elem())
		}
		if err := th.decodeInto(tk, inner, u.Elem(), strict).(Iface); err.t != nil {
			return err
		}
		*cell = inner
		return nilError()
	case *types.Basic:
		if isNull {
			return nilError()
		}
		switch {
		case u.Info()&types.IsString != 0:
			if !th.kindIs(tk, kString) {
				return th.jsonError("cannot unmarshal non-string into Go value of type string")
			}
			*cell = th.decodedString(tk)
			return nilError()
		case u.Info()&types.IsInteger != 0:
			if !th.kindIs(tk, kNumber) {
				return th.jsonError("cannot unmarshal non-number into integer")
			}
			s, _ := sortOf(t)
			v, ok := th.tokInt(tk)
			if !ok {
				// a number of unknown text: it may or may not be an integer in range
				okv := st.freshVar("json.int.ok", 8)
				if !st.branch(mkEq(okv, mkBV(8, 1)), "json-int") {
					return th.jsonError("cannot unmarshal number into integer")
				}
				v = mkUF("tk_str", 64, tk.ns, tk.v) // deterministic per token identity
				*cell = mkExtract(v, int(s)-1, 0)
				return nilError()
			}
			// range check for the target width
			var fits *Term
			if isSigned(t) {
				fits = mkEq(mkSext(mkExtract(v, int(s)-1, 0), 64), v)
			} else {
				fits = mkAnd(mkCmp("bvsge", v, mkBV(64, 0)), mkEq(mkZext(mkExtract(v, int(s)-1, 0), 64), v))
			}
			if !st.branch(fits, "json-int-range") {
				return th.jsonError("number out of range for integer type")
			}
			*cell = mkExtract(v, int(s)-1, 0)
			return nilError()
		case u.Info()&types.IsBoolean != 0:
			if th.kindIs(tk, kTrue) {
				*cell = tTrue
				return nilError()
			}
			if th.kindIs(tk, kFalse) {
				*cell = tFalse
				return nilError()
			}
			return th.jsonError("cannot unmarshal into bool")
		}
	case *types.Slice:
		if isNull {
			*cell = Slice{}
			return nilError()
		}
		if b, ok := u.Elem().Underlying().(*types.Basic); ok && b.Kind() == types.Uint8 {
			st.abort("json decode into []byte (base64) not modelled")
		}
		if !th.kindIs(tk, kArray) {
			return th.jsonError("cannot unmarshal non-array into slice")
		}
		elems := th.arrayElems(tk)
		out := make([]Value, len(elems))
		for i, el := range elems {
			c := new(Value)
			*c = zero(u.Elem())
			if err := th.decodeInto(el, c, u.Elem(), strict).(Iface); err.t != nil {
				return err
			}
			out[i] = *c
		}
		*cell = Slice{a: out}
		return nilError()
	case *types.Map:
		if isNull {
			*cell = (*MapVal)(nil)
			return nilError()
		}
		if !th.kindIs(tk, kObject) {
			return th.jsonError("cannot unmarshal non-object into map")
		}
		m, _ := (*cell).(*MapVal)
		if m == nil {
			m = &MapVal{}
		}
		for _, mem := range th.objectMembers(tk) {
			c := new(Value)
			*c = zero(u.Elem())
			if err := th.decodeInto(mem.val, c, u.Elem(), strict).(Iface); err.t != nil {
				return err
			}
			th.mapUpdate(m, mem.key, *c)
		}
		*cell = m
		return nilError()
	case *types.Struct:
		if isNull {
			return nilError()
		}
		if !th.kindIs(tk, kObject) {
			return th.jsonError("cannot unmarshal non-object into struct")
		}
		sv := (*cell).(Struct)
		fields := structFields(u)
		for _, mem := range th.objectMembers(tk) {
			matched := false
			for _, f := range fields {
				if th.st.branch(th.foldEq(mem.key, f.name), "json-field") {
					matched = true
					if err := th.decodeInto(mem.val, &sv[f.index], u.Field(f.index).Type(), strict).(Iface); err.t != nil {
						return err
					}
					break
				}
			}
			if !matched && strict {
				return th.jsonError("unknown field")
			}
		}
		return nilError()
	case *types.Interface:
		if u.NumMethods() == 0 {
			*cell = Iface{t: th.st.eng.opaqueJSONType(), v: &Opaque{kind: "jsonvalue", data: tk}}
			if isNull {
				*cell = Iface{}
			}
			return nilError()
		}
	}
	st.abort("json decode into %v not modelled", t)
	return nil
}

func (e *Engine) opaqueJSONType() types.Type { return types.Typ[types.UnsafePointer] }

// decodedString returns the Go string a JSON string token decodes to.
func (th *Thread) decodedString(tk *Token) *StrVal {
	if tk.str != nil {
		return tk.str
	}
	// unknown content: a fresh bounded symbolic string, cached on the token
	max := th.st.eng.cfg.DecodedStrMax
	lv := th.st.freshVar("json.str.len", 64)
	guards := make([]*Term, max+1)
	for i := range guards {
		guards[i] = mkEq(lv, mkBV(64, uint64(i)))
	}
	n := th.st.choose(max+1, guards, "decoded-len")
	e := make([]Value, n)
	for i := range e {
		e[i] = th.st.freshVar("json.str", 8)
	}
	tk.str = &StrVal{e: e}
	th.st.note("content of an opaque JSON string bounded to " + strconv.Itoa(max) + " bytes")
	return tk.str
}

func (th *Thread) arrayElems(tk *Token) []*Token {
	if tk.arr != nil {
		return tk.arr
	}
	th.st.abort("elements of an opaque array token are unknown (build arrays with tokArray)")
	return nil
}

func (th *Thread) objectMembers(tk *Token) []TokMem {
	if tk.obj != nil || tk.ns.IsConst() && tk.ns.c == nsObj {
		return tk.obj
	}
	th.st.abort("members of an opaque object token are unknown (build objects with tokObject)")
	return nil
}

type fieldInfo struct {
	name      *StrVal
	index     int
	omitEmpty bool
}

func structFields(u *types.Struct) []fieldInfo {
	var out []fieldInfo
	for i := 0; i < u.NumFields(); i++ {
		f := u.Field(i)
		if !f.Exported() {
			continue
		}
		name := f.Name()
		omit := false
		if tag, ok := reflect.StructTag(u.Tag(i)).Lookup("json"); ok {
			if tag == "-" {
				continue
			}
			parts := strings.Split(tag, ",")
			if parts[0] != "" {
				name = parts[0]
			}
			for _, p := range parts[1:] {
				if p == "omitempty" {
					omit = true
				}
			}
		}
		out = append(out, fieldInfo{name: concreteStr(name), index: i, omitEmpty: omit})
	}
	return out
}

// foldEq: ASCII case-insensitive string equality (encoding/json field match).
func (th *Thread) foldEq(a, b *StrVal) *Term {
	if a.hasToken() || b.hasToken() || len(a.e) != len(b.e) {
		return tFalse
	}
	lower := func(x *Term) *Term {
		up := mkAnd(mkCmp("bvuge", x, mkBV(8, 'A')), mkCmp("bvule", x, mkBV(8, 'Z')))
		return mkIte(up, mkBin("bvadd", x, mkBV(8, 32)), x)
	}
	r := tTrue
	for i := range a.e {
		r = mkAnd(r, mkEq(lower(a.e[i].(*Term)), lower(b.e[i].(*Term))))
	}
	return r
}

// jsonMarshal implements json.Marshal(v): the result is one token.
func (th *Thread) jsonMarshal(v Iface) (*Token, Value) {
	if v.t == nil {
		bad := false
		return th.literalToken("null", &bad), nil
	}
	return th.marshalValue(v.v, v.t)
}

func (th *Thread) marshalValue(v Value, t types.Type) (*Token, Value) {
	st := th.st
	lit := func(s string) (*Token, Value) {
		bad := false
		return th.literalToken(s, &bad), nil
	}
	if o, ok := v.(*Opaque); ok && o.kind == "jsonvalue" {
		return o.data.(*Token), nil
	}
	// Marshaler
	if _, isIface := t.Underlying().(*types.Interface); !isIface {
		if t.String() == "time.Time" {
			return th.stringToken(concreteStr("<time>")), nil
		}
		if m := th.findMethod(t, "MarshalJSON"); m != nil {
			if _, isPtr := t.Underlying().(*types.Pointer); isPtr && isNilPtr(v) {
				return lit("null")
			}
			res := th.callFn(m, []Value{v}, nil).(Tuple)
			if err := res[1].(Iface); err.t != nil {
				return nil, err
			}
			tk, ok := th.parseRope(res[0].(Slice).a)
			if !ok {
				return nil, th.jsonError("error calling MarshalJSON: invalid output")
			}
			return th.compactToken(tk), nil // Marshaler output is compacted
		}
	}
	switch u := t.Underlying().(type) {
	case *types.Basic:
		switch {
		case u.Info()&types.IsString != 0:
			return th.stringToken(v.(*StrVal)), nil
		case u.Info()&types.IsBoolean != 0:
			if st.branch(v.(*Term), "marshal-bool") {
				return lit("true")
			}
			return lit("false")
		case u.Info()&types.IsInteger != 0:
			x := v.(*Term)
			if x.IsConst() {
				if isSigned(t) {
					return lit(strconv.FormatInt(x.Int(), 10))
				}
				return lit(strconv.FormatUint(x.c, 10))
			}
			var wide *Term
			if isSigned(t) {
				wide = mkSext(x, 64)
			} else {
				wide = mkZext(x, 64)
			}
			sv := st.eng.intrinsics["strconv.Itoa"](th, nil, []Value{wide}).(*StrVal)
			return sv.e[0].(*Token), nil
		case u.Info()&types.IsFloat != 0:
			f := v.(*Float)
			if f.known {
				if f.f != f.f || f.f > 1.7976931348623157e308 || f.f < -1.7976931348623157e308 {
					return nil, th.jsonError("unsupported value: NaN or Inf")
				}
				return lit(strconv.FormatFloat(f.f, 'g', -1, 64))
			}
			if st.branch(mkEq(f.class, mkBV(8, 0)), "marshal-float-finite") {
				tk := th.newEngineToken(kNumber)
				return tk, nil
			}
			return nil, th.jsonError("unsupported value: NaN or Inf")
		}
	case *types.Pointer:
		p := v.(*Value)
		if p == nil {
			return lit("null")
		}
		return th.marshalValue(*p, u.Elem())
	case *types.Interface:
		iv := v.(Iface)
		if iv.t == nil {
			return lit("null")
		}
		return th.marshalValue(iv.v, iv.t)
	case *types.Struct:
		sv := v.(Struct)
		tk := th.newEngineToken(kObject)
		for _, f := range structFields(u) {
			fv := sv[f.index]
			if f.omitEmpty && th.isEmptyValue(fv) {
				continue
			}
			mt, err := th.marshalValue(fv, u.Field(f.index).Type())
			if err != nil {
				return nil, err
			}
			tk.obj = append(tk.obj, TokMem{key: f.name, val: mt})
		}
		return tk, nil
	case *types.Slice:
		s := v.(Slice)
		if s.isNil() {
			return lit("null")
		}
		if b, ok := u.Elem().Underlying().(*types.Basic); ok && b.Kind() == types.Uint8 {
			// []byte -> base64 string (content opaque)
			return th.stringToken(concreteStr("<base64>")), nil
		}
		tk := th.newEngineToken(kArray)
		tk.arr = []*Token{}
		for _, x := range s.a {
			mt, err := th.marshalValue(x, u.Elem())
			if err != nil {
				return nil, err
			}
			tk.arr = append(tk.arr, mt)
		}
		return tk, nil
	case *types.Map:
		m := v.(*MapVal)
		if m == nil {
			return lit("null")
		}
		tk := th.newEngineToken(kObject)
		idx := make([]int, len(m.keys))
		for i := range idx {
			idx[i] = i
		}
		// sorted by key when keys are constant strings (encoding/json sorts keys)
		allConst := true
		for _, k := range m.keys {
			if s, ok := k.(*StrVal); !ok {
				allConst = false
			} else if _, ok := s.goString(); !ok {
				allConst = false
			}
		}
		if allConst {
			sort.Slice(idx, func(a, b int) bool {
				x, _ := m.keys[idx[a]].(*StrVal).goString()
				y, _ := m.keys[idx[b]].(*StrVal).goString()
				return x < y
			})
		}
		for _, i := range idx {
			ks, ok := m.keys[i].(*StrVal)
			if !ok {
				st.abort("marshal of map with non-string keys")
			}
			mt, err := th.marshalValue(m.vals[i], u.Elem())
			if err != nil {
				return nil, err
			}
			tk.obj = append(tk.obj, TokMem{key: ks, val: mt})
		}
		return tk, nil
	case *types.Signature, *types.Chan:
		return nil, th.jsonError("unsupported type")
	}
	st.abort("json.Marshal of %v (%T) not modelled", t, v)
	return nil, nil
}

func (th *Thread) isEmptyValue(v Value) bool {
	switch x := v.(type) {
	case *StrVal:
		return len(x.e) == 0
	case Slice:
		return len(x.a) == 0
	case *MapVal:
		return x == nil || len(x.keys) == 0
	case *Value:
		return x == nil
	case Iface:
		return x.t == nil
	case *Term:
		if x.sort == SBool {
			return !th.st.branch(x, "omitempty-bool")
		}
		return th.st.branch(mkEq(x, mkBV(x.sort, 0)), "omitempty-int")
	case Struct:
		return false
	}
	return false
}
