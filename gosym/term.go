package main

// Symbolic terms (SMT-LIB2) with constant folding.  Integers are bit-vectors of
// the Go type's width and wrap exactly like Go's; booleans are SMT Bool.

import (
	"fmt"
	"strings"
)

type Sort int // 0 = Bool, otherwise bit-vector width

const SBool Sort = 0

func (s Sort) String() string {
	if s == SBool {
		return "Bool"
	}
	return fmt.Sprintf("(_ BitVec %d)", int(s))
}

type Term struct {
	op   string // "const", "var", or SMT operator / "extract" / "zext" / "sext" / UF name
	sort Sort
	args []*Term
	c    uint64 // constant value (masked to width); for Bool 0/1
	name string // var name / uf name
	p1   int    // extract hi / extend amount
	p2   int    // extract lo
	id   int    // per-path emission id (0 = not yet emitted)
	gen  int    // path generation the id belongs to
	size int    // rough DAG-size estimate (for inlining small terms)
	h1, h2 uint64 // structural hash (0 = not computed)
}

func mask(w Sort) uint64 {
	if w >= 64 {
		return ^uint64(0)
	}
	return (uint64(1) << uint(w)) - 1
}

func (t *Term) IsConst() bool { return t.op == "const" }

func (t *Term) Bool() bool { return t.c != 0 }

// signed value of a constant
func (t *Term) Int() int64 {
	w := uint(t.sort)
	if w == 64 {
		return int64(t.c)
	}
	if t.c&(1<<(w-1)) != 0 {
		return int64(t.c | ^mask(t.sort))
	}
	return int64(t.c)
}

var (
	tTrue  = &Term{op: "const", sort: SBool, c: 1, size: 1}
	tFalse = &Term{op: "const", sort: SBool, c: 0, size: 1}
)

func mkBool(b bool) *Term {
	if b {
		return tTrue
	}
	return tFalse
}

func mkBV(w Sort, v uint64) *Term {
	return &Term{op: "const", sort: w, c: v & mask(w), size: 1}
}

func mkInt(w Sort, v int64) *Term { return mkBV(w, uint64(v)) }

func mkVar(name string, s Sort) *Term { return &Term{op: "var", sort: s, name: name, size: 1} }

func mk(op string, s Sort, args ...*Term) *Term {
	sz := 1
	for _, a := range args {
		sz += a.size
	}
	return &Term{op: op, sort: s, args: args, size: sz}
}

func mkUF(name string, s Sort, args ...*Term) *Term {
	t := mk("uf", s, args...)
	t.name = name
	return t
}

func sameTerm(a, b *Term) bool {
	if a == b {
		return true
	}
	if a.op != b.op || a.sort != b.sort || len(a.args) != len(b.args) {
		return false
	}
	switch a.op {
	case "const":
		return a.c == b.c
	case "var":
		return a.name == b.name
	}
	if a.name != b.name || a.p1 != b.p1 || a.p2 != b.p2 {
		return false
	}
	if a.size > 40 {
		return false // do not walk big terms
	}
	for i := range a.args {
		if !sameTerm(a.args[i], b.args[i]) {
			return false
		}
	}
	return true
}

func mkNot(a *Term) *Term {
	if a.IsConst() {
		return mkBool(!a.Bool())
	}
	if a.op == "not" {
		return a.args[0]
	}
	return mk("not", SBool, a)
}

func mkAnd(a, b *Term) *Term {
	if a.IsConst() {
		if a.Bool() {
			return b
		}
		return tFalse
	}
	if b.IsConst() {
		if b.Bool() {
			return a
		}
		return tFalse
	}
	return mk("and", SBool, a, b)
}

func mkOr(a, b *Term) *Term {
	if a.IsConst() {
		if a.Bool() {
			return tTrue
		}
		return b
	}
	if b.IsConst() {
		if b.Bool() {
			return tTrue
		}
		return a
	}
	return mk("or", SBool, a, b)
}

func mkAndN(ts ...*Term) *Term {
	r := tTrue
	for _, t := range ts {
		r = mkAnd(r, t)
	}
	return r
}

func mkImplies(a, b *Term) *Term { return mkOr(mkNot(a), b) }

func mkIte(c, a, b *Term) *Term {
	if c.IsConst() {
		if c.Bool() {
			return a
		}
		return b
	}
	if sameTerm(a, b) {
		return a
	}
	if a.sort == SBool {
		if a.IsConst() && b.IsConst() {
			if a.Bool() {
				return c
			}
			return mkNot(c)
		}
	}
	return mk("ite", a.sort, c, a, b)
}

func mkEq(a, b *Term) *Term {
	if a.sort != b.sort {
		panic(fmt.Sprintf("mkEq: sort mismatch %v %v (%s / %s)", a.sort, b.sort, a.String(), b.String()))
	}
	if a.IsConst() && b.IsConst() {
		return mkBool(a.c == b.c)
	}
	if sameTerm(a, b) {
		return tTrue
	}
	if a.sort == SBool {
		if a.IsConst() {
			if a.Bool() {
				return b
			}
			return mkNot(b)
		}
		if b.IsConst() {
			if b.Bool() {
				return a
			}
			return mkNot(a)
		}
	}
	// ite(c, k1, k2) == k : fold when all constant
	if b.IsConst() && a.op == "ite" && a.args[1].IsConst() && a.args[2].IsConst() {
		x, y := a.args[1].c == b.c, a.args[2].c == b.c
		switch {
		case x && y:
			return tTrue
		case x:
			return a.args[0]
		case y:
			return mkNot(a.args[0])
		default:
			return tFalse
		}
	}
	return mk("=", SBool, a, b)
}

func signExt(v uint64, w Sort) int64 {
	if w >= 64 {
		return int64(v)
	}
	if v&(1<<(uint(w)-1)) != 0 {
		return int64(v | ^mask(w))
	}
	return int64(v)
}

// mkBin builds a bit-vector binary operation.  op is an SMT-LIB name.
func mkBin(op string, a, b *Term) *Term {
	if a.sort != b.sort {
		panic(fmt.Sprintf("mkBin %s: sort mismatch %v %v", op, a.sort, b.sort))
	}
	w := a.sort
	if a.IsConst() && b.IsConst() {
		x, y := a.c, b.c
		sx, sy := signExt(x, w), signExt(y, w)
		switch op {
		case "bvadd":
			return mkBV(w, x+y)
		case "bvsub":
			return mkBV(w, x-y)
		case "bvmul":
			return mkBV(w, x*y)
		case "bvand":
			return mkBV(w, x&y)
		case "bvor":
			return mkBV(w, x|y)
		case "bvxor":
			return mkBV(w, x^y)
		case "bvudiv":
			if y != 0 {
				return mkBV(w, x/y)
			}
		case "bvurem":
			if y != 0 {
				return mkBV(w, x%y)
			}
		case "bvsdiv":
			if y != 0 {
				if sy == -1 {
					return mkBV(w, uint64(-sx))
				}
				return mkBV(w, uint64(sx/sy))
			}
		case "bvsrem":
			if y != 0 {
				if sy == -1 {
					return mkBV(w, 0)
				}
				return mkBV(w, uint64(sx%sy))
			}
		case "bvshl":
			if y >= uint64(w) {
				return mkBV(w, 0)
			}
			return mkBV(w, x<<y)
		case "bvlshr":
			if y >= uint64(w) {
				return mkBV(w, 0)
			}
			return mkBV(w, x>>y)
		case "bvashr":
			if y >= uint64(w) {
				if sx < 0 {
					return mkBV(w, ^uint64(0))
				}
				return mkBV(w, 0)
			}
			return mkBV(w, uint64(sx>>y))
		}
	}
	// light algebraic simplifications
	switch op {
	case "bvadd":
		if a.IsConst() && a.c == 0 {
			return b
		}
		if b.IsConst() && b.c == 0 {
			return a
		}
	case "bvsub":
		if b.IsConst() && b.c == 0 {
			return a
		}
	case "bvmul":
		if a.IsConst() && a.c == 1 {
			return b
		}
		if b.IsConst() && b.c == 1 {
			return a
		}
	}
	return mk(op, w, a, b)
}

func mkCmp(op string, a, b *Term) *Term {
	if a.sort != b.sort {
		panic(fmt.Sprintf("mkCmp %s: sort mismatch %v %v", op, a.sort, b.sort))
	}
	w := a.sort
	if a.IsConst() && b.IsConst() {
		x, y := a.c, b.c
		sx, sy := signExt(x, w), signExt(y, w)
		switch op {
		case "bvult":
			return mkBool(x < y)
		case "bvule":
			return mkBool(x <= y)
		case "bvugt":
			return mkBool(x > y)
		case "bvuge":
			return mkBool(x >= y)
		case "bvslt":
			return mkBool(sx < sy)
		case "bvsle":
			return mkBool(sx <= sy)
		case "bvsgt":
			return mkBool(sx > sy)
		case "bvsge":
			return mkBool(sx >= sy)
		}
	}
	return mk(op, SBool, a, b)
}

func mkNeg(a *Term) *Term {
	if a.IsConst() {
		return mkBV(a.sort, -a.c)
	}
	return mk("bvneg", a.sort, a)
}

func mkBVNot(a *Term) *Term {
	if a.IsConst() {
		return mkBV(a.sort, ^a.c)
	}
	return mk("bvnot", a.sort, a)
}

func mkExtract(a *Term, hi, lo int) *Term {
	w := Sort(hi - lo + 1)
	if lo == 0 && w == a.sort {
		return a
	}
	if a.IsConst() {
		return mkBV(w, a.c>>uint(lo))
	}
	// extract of an extension back to the original width
	if (a.op == "zext" || a.op == "sext") && lo == 0 && w == a.args[0].sort {
		return a.args[0]
	}
	t := mk("extract", w, a)
	t.p1, t.p2 = hi, lo
	return t
}

func mkZext(a *Term, to Sort) *Term {
	if to == a.sort {
		return a
	}
	if to < a.sort {
		return mkExtract(a, int(to)-1, 0)
	}
	if a.IsConst() {
		return mkBV(to, a.c)
	}
	t := mk("zext", to, a)
	t.p1 = int(to - a.sort)
	return t
}

func mkSext(a *Term, to Sort) *Term {
	if to == a.sort {
		return a
	}
	if to < a.sort {
		return mkExtract(a, int(to)-1, 0)
	}
	if a.IsConst() {
		return mkBV(to, uint64(signExt(a.c, a.sort)))
	}
	t := mk("sext", to, a)
	t.p1 = int(to - a.sort)
	return t
}

// ---- printing ------------------------------------------------------------

func bvLit(w Sort, v uint64) string {
	if w%4 == 0 {
		return fmt.Sprintf("#x%0*x", int(w)/4, v&mask(w))
	}
	return fmt.Sprintf("(_ bv%d %d)", v&mask(w), int(w))
}

func (t *Term) head() string {
	switch t.op {
	case "extract":
		return fmt.Sprintf("(_ extract %d %d)", t.p1, t.p2)
	case "zext":
		return fmt.Sprintf("(_ zero_extend %d)", t.p1)
	case "sext":
		return fmt.Sprintf("(_ sign_extend %d)", t.p1)
	case "uf":
		return t.name
	}
	return t.op
}

// String renders the full tree (debugging / small terms only).
func (t *Term) String() string {
	var sb strings.Builder
	t.write(&sb, nil, 0)
	return sb.String()
}

func (t *Term) write(sb *strings.Builder, ref func(*Term) (string, bool), depth int) {
	switch t.op {
	case "const":
		if t.sort == SBool {
			if t.c != 0 {
				sb.WriteString("true")
			} else {
				sb.WriteString("false")
			}
		} else {
			sb.WriteString(bvLit(t.sort, t.c))
		}
		return
	case "var":
		sb.WriteString(t.name)
		return
	}
	if ref != nil && depth > 0 {
		if s, ok := ref(t); ok {
			sb.WriteString(s)
			return
		}
	}
	if len(t.args) == 0 {
		sb.WriteString(t.head())
		return
	}
	sb.WriteByte('(')
	sb.WriteString(t.head())
	for _, a := range t.args {
		sb.WriteByte(' ')
		a.write(sb, ref, depth+1)
	}
	sb.WriteByte(')')
}

// hash returns a 128-bit structural hash of the term (memoised).
func (t *Term) hash() (uint64, uint64) {
	if t.h1 != 0 || t.h2 != 0 {
		return t.h1, t.h2
	}
	a, b := uint64(14695981039346656037), uint64(0x9e3779b97f4a7c15)
	mix := func(x uint64) {
		a ^= x
		a *= 1099511628211
		b = (b ^ x) * 0xff51afd7ed558ccd
		b ^= b >> 33
	}
	for i := 0; i < len(t.op); i++ {
		mix(uint64(t.op[i]))
	}
	mix(uint64(t.sort) + 1000)
	mix(t.c)
	for i := 0; i < len(t.name); i++ {
		mix(uint64(t.name[i]))
	}
	mix(uint64(t.p1)<<20 ^ uint64(t.p2))
	for _, x := range t.args {
		x1, x2 := x.hash()
		mix(x1)
		mix(x2 ^ 0x5555)
	}
	if a == 0 && b == 0 {
		a = 1
	}
	if t != tTrue && t != tFalse {
		t.h1, t.h2 = a, b
	}
	return a, b
}
