package main

// Rope-aware versions of the strings helpers the library applies to header
// lines and method names (they work in element units, so opaque tokens may be
// part of the string).

import (
	"golang.org/x/tools/go/ssa"
)

// tokMayContain reports whether an opaque token can contain byte c.
// Integer tokens consist of digits and '-'; JSON values contain no raw
// control bytes (< 0x20).
func (th *Thread) tokMayContain(tk *Token, c *Term) bool {
	if !c.IsConst() {
		return true
	}
	b := byte(c.c)
	if b < 0x20 {
		return false
	}
	if tk.errv != nil {
		return b == '-' || (b >= '0' && b <= '9')
	}
	return true
}

// elemIndexByte finds the first element equal to byte c (element index).
func (th *Thread) elemIndexByte(e []Value, c *Term) int {
	for i, x := range e {
		if tk, ok := x.(*Token); ok {
			if th.tokMayContain(tk, c) {
				th.st.abort("search for byte %v inside an opaque token", c)
			}
			continue
		}
		if th.st.branch(mkEq(x.(*Term), c), "indexbyte") {
			return i
		}
	}
	return -1
}

func (th *Thread) inCutset(x Value, cut string) bool {
	b, ok := x.(*Term)
	if !ok {
		// a token: its last/first byte is never white space or control; for any
		// other cutset the answer is unknown
		for i := 0; i < len(cut); i++ {
			if cut[i] > 0x20 {
				th.st.abort("trim of an opaque token with cutset %q", cut)
			}
		}
		return false
	}
	in := tFalse
	for i := 0; i < len(cut); i++ {
		in = mkOr(in, mkEq(b, mkBV(8, uint64(cut[i]))))
	}
	return th.st.branch(in, "cutset")
}

func registerStrings(e *Engine) {
	reg := func(name string, f Intrinsic) { e.intrinsics[name] = f }
	reg("strings.TrimRight", func(th *Thread, fn *ssa.Function, a []Value) Value {
		s := a[0].(*StrVal).e
		cut := strArg(th, a[1])
		hi := len(s)
		for hi > 0 && th.inCutset(s[hi-1], cut) {
			hi--
		}
		return &StrVal{e: s[:hi]}
	})
	reg("strings.TrimLeft", func(th *Thread, fn *ssa.Function, a []Value) Value {
		s := a[0].(*StrVal).e
		cut := strArg(th, a[1])
		lo := 0
		for lo < len(s) && th.inCutset(s[lo], cut) {
			lo++
		}
		return &StrVal{e: s[lo:]}
	})
	reg("strings.Trim", func(th *Thread, fn *ssa.Function, a []Value) Value {
		s := a[0].(*StrVal).e
		cut := strArg(th, a[1])
		lo, hi := 0, len(s)
		for lo < hi && th.inCutset(s[lo], cut) {
			lo++
		}
		for hi > lo && th.inCutset(s[hi-1], cut) {
			hi--
		}
		return &StrVal{e: s[lo:hi]}
	})
	reg("strings.SplitN", func(th *Thread, fn *ssa.Function, a []Value) Value {
		s := a[0].(*StrVal).e
		sep := strArg(th, a[1])
		n := a[2].(*Term)
		if len(sep) != 1 || !n.IsConst() || n.Int() != 2 {
			th.st.abort("strings.SplitN only modelled for a one-byte separator and n=2")
		}
		i := th.elemIndexByte(s, mkBV(8, uint64(sep[0])))
		if i < 0 {
			return Slice{a: []Value{&StrVal{e: s}}}
		}
		return Slice{a: []Value{&StrVal{e: s[:i]}, &StrVal{e: s[i+1:]}}}
	})
	// strings.Cut(s, sep) == SplitN(s, sep, 2) with a found flag
	reg("strings.Cut", func(th *Thread, fn *ssa.Function, a []Value) Value {
		s := a[0].(*StrVal).e
		sep := strArg(th, a[1])
		if len(sep) != 1 {
			th.st.abort("strings.Cut only modelled for a one-byte separator")
		}
		i := th.elemIndexByte(s, mkBV(8, uint64(sep[0])))
		if i < 0 {
			return Tuple{&StrVal{e: s}, &StrVal{}, tFalse}
		}
		return Tuple{&StrVal{e: s[:i]}, &StrVal{e: s[i+1:]}, tTrue}
	})
	reg("strings.HasPrefix", func(th *Thread, fn *ssa.Function, a []Value) Value {
		s, p := a[0].(*StrVal).e, a[1].(*StrVal).e
		if hasWide(p) {
			th.st.abort("HasPrefix with opaque prefix")
		}
		r := tTrue
		for i, pb := range p {
			if i >= len(s) {
				return tFalse
			}
			sb, ok := s[i].(*Term)
			if !ok {
				tk := s[i].(*Token)
				// compare against the token's leading bytes (first four known)
				for j := i; j < len(p); j++ {
					if j-i >= 4 {
						th.st.abort("HasPrefix reaches beyond the fourth byte of an opaque token")
					}
					r = mkAnd(r, mkAnd(mkCmp("bvugt", th.tokLen(tk), mkBV(64, uint64(j-i))), mkEq(th.tokByte(tk, j-i), p[j].(*Term))))
				}
				return r
			}
			r = mkAnd(r, mkEq(sb, pb.(*Term)))
		}
		return r
	})
	reg("strings.LastIndex", func(th *Thread, fn *ssa.Function, a []Value) Value {
		s := a[0].(*StrVal).e
		sep := strArg(th, a[1])
		if len(sep) != 1 || hasWide(s) {
			th.st.abort("strings.LastIndex only modelled for a one-byte separator over plain bytes")
		}
		for i := len(s) - 1; i >= 0; i-- {
			if th.st.branch(mkEq(s[i].(*Term), mkBV(8, uint64(sep[0]))), "lastindex") {
				return mkInt(64, int64(i))
			}
		}
		return mkInt(64, -1)
	})
}
