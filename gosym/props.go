package main

// Property -> harness table with the stated bounds, assumptions and what is
// outside each claim (copied into the evidence file on every run).

type HarnessSpec struct {
	Dir          string // key of harnessDirs
	Name         string
	Reach        []string // required reachability witnesses (vacuity guard)
	Bounds       map[string]string
	ThoroughOnly bool
	Tweak        func(cfg *Config, thorough bool)
}

type PropSpec struct {
	ID          string
	Explanation string
	Bounds      []string
	Outside     []string
	Assumptions []string
	Harnesses   []HarnessSpec
}

var commonAssumptions = []string{
	"engine: own SSA interpreter (gosym) is trusted to follow Go semantics for the instruction kinds it executes; every reported violation is replayed natively before it is reported",
	"integers are bit-vectors of the Go width (wrapping); strings/byte slices have concrete lengths chosen by case split, symbolic bytes",
	"solver: z3 4.8.12 without set-logic; any (error or unknown makes the check inconclusive (exit 2)",
}

var propSpecs = map[string]*PropSpec{}

func addProp(p *PropSpec) { propSpecs[p.ID] = p }

func init() {
	registerMore()
	addProp(&PropSpec{
		ID: "C12",
		Explanation: "Header-framing Recv executed symbolically from /repo's channel/hdr.go with the Content-Length value an arbitrary non-negative 64-bit int " +
			"(decimal text kept as an opaque integer token; strconv.Atoi is its inverse) and three classes of previous receive-buffer length; " +
			"the makeslice length/capacity check of the Go runtime is an explicit path obligation, so an overflowing size*2 is found by the solver.",
		Bounds: []string{"Content-Length: any int in [0, 3] or (2^15, 2^63)", "previous buffer length in {0, 8, 64}", "body absent (ReadFull / CopyN stubs return EOF)",
			"allocations above 65536 elements are pruned (outside the claim): sizes in (2^15, 2^24] are not decided by this harness"},
		Outside:     []string{"RawJSON framing (encoding/json streaming decoder)", "memory exhaustion below the makeslice limit"},
		Assumptions: append([]string{"bufio.Reader.ReadString is redirected to a line script in the size harness (lines carry the opaque integer token); io.ReadFull stub: 0 bytes -> io.EOF", "runtime: make([]byte, n, c) panics iff n<0 or n>c or c>2^48 (linux/amd64 maxAlloc)"}, commonAssumptions...),
		Harnesses: []HarnessSpec{
			{Dir: "channel", Name: "Harness_C12_hdr_size", Reach: []string{"recv-returned"}},
		},
	})
}

var jsonAssumption = "encoding/json is a contract stub over opaque JSON tokens (gosym/json.go): validity, kind per Go type, null handling, RawMessage without surrounding white space, compact output without raw control bytes, last duplicate key wins, case-insensitive struct field match"

func registerMore() {
	addProp(&PropSpec{
		ID: "C02",
		Explanation: "One inbound record (a single member; thorough: also arrays of 1..2 members) is generated from symbolic choices - any subset of the keys jsonrpc/id/method/params/error/result/unknown, each value an opaque JSON token of symbolic kind - " +
			"and pushed through the real jmessages.parseJSON, filterBatchLocked, dispatchLocked closure (checkAndAssignLocked, invoke, tasks.responses, deliver, encode). The reply bytes are parsed back and compared with a reference classifier written from the JSON-RPC 2.0 spec and the README. " +
			"Token kinds, first bytes, ids and error codes stay symbolic, so each path is decided for all values; map iteration order of the member parser is explored exhaustively for members with <= 3 keys.",
		Bounds: []string{"quick: single non-batch member; value classes: version {2.0, other string, non-string}, method {ok, nosuch, rpc.other, empty, non-string, null}, error {object, non-object}, unknown key only with request fields",
			"thorough: all classes (adds null version/error, failing handler, rpc.serverInfo), arrays of 1..2 members", "all map iteration orders for <= 3 present keys (thorough: <= 4), one fixed order otherwise",
			"ids of members of one batch pairwise different (duplicates: C07)", "one unknown key stands for any number"},
		Outside:     []string{"undecodable top-level JSON / empty batch (C13 harness covers ParseRequests; the reader's pushErrorLocked path is in C08)", "random and mutated records beyond the bound (sampling is not done)", "duplicate keys inside one object (resolved by encoding/json)"},
		Assumptions: append([]string{jsonAssumption, "reply-shaped member = carries a result or a well-formed error object and no method name (method absent, null, empty or not a string)"}, commonAssumptions...),
		Harnesses: []HarnessSpec{
			{Dir: "jrpc2", Name: "Harness_C02_single", Reach: []string{"dispatched", "silent", "single-reply"}},
			{Dir: "jrpc2", Name: "Harness_C02_batch", Reach: []string{"batch-reply"}, ThoroughOnly: true},
		},
	})
	addProp(&PropSpec{
		ID: "C03",
		Explanation: "A real started Server (reader, dispatcher, per-batch and handler goroutines as engine threads) over an instrumented channel receives two (thorough: up to three) records whose members are symbolically notifications or calls; every handler blocks on a gate, an environment thread opens the notification gates in a symbolic order, calls stay gated. " +
			"Scheduling decisions at blocking points are explored up to the delay bound. Checked at quiescence: a notification of an earlier record has exited before any handler of a later record is entered; gated calls do not hold up later arrivals below the concurrency limit; handler count <= Concurrency; each handler ran exactly once.",
		Bounds: []string{"records: 2 (thorough 2..3); members per record: 1..2 (quick: second record 1)", "Concurrency 2 (thorough {1,2})", "delay-bounded scheduler: <= 2 deviations from the deterministic lowest-thread-first order (thorough 3); context switches only at blocking operations (preemption bound 0)", "<= 8 threads"},
		Outside:     []string{"schedules needing more delays or a preemption inside a critical section", "concurrent Stop/CancelRequest/push during dispatch (C08/C09 harnesses)"},
		Assumptions: append([]string{jsonAssumption, "sync.Mutex/WaitGroup, channels, select and context are engine intrinsics; x/sync/semaphore and mds/queue are executed from source"}, commonAssumptions...),
		Harnesses: []HarnessSpec{
			{Dir: "jrpc2", Name: "Harness_C03_order", Reach: []string{"quiescent", "ordered-pair", "done"}, Tweak: func(c *Config, th bool) {
				c.Delays = 2
				if th {
					c.Delays = 3
				}
			}},
		},
	})
	addProp(&PropSpec{
		ID: "C14",
		Explanation: "Handler errors are built from every constructor (Error with any int32 code / symbolic message / optional data token, Code.Err, Errorf, value- and pointer-receiver ErrCoder types, context sentinels, plain errors), wrapped 0..2 (thorough 0..3) times with %w, and pushed through the real tasks.responses, jmessages.toJSON, parseJSON, Client.deliverLocked, Response.wait and filterError; " +
			"the solver decides the code equalities over the full int32 range. A second harness decides ErrorCode(c.Err()) == c for every int32 c and that WithData leaves its receiver unchanged for nil / marshalable / unmarshalable data.",
		Bounds:      []string{"wrap depth <= 2 (thorough <= 3)", "message length <= 2 bytes (symbolic)", "all int32 codes (bit-vector)"},
		Outside:     []string{"an ErrCoder reporting NoError for a non-nil error (excluded by assumption; the property exempts NoError)", "json.Marshal of arbitrary handler results (contract stub)"},
		Assumptions: append([]string{jsonAssumption, "errors.Is/As re-implemented in the engine following package errors (Is/As/Unwrap methods are the interpreted ones); fmt.Errorf keeps the %w operand reachable through Unwrap"}, commonAssumptions...),
		Harnesses: []HarnessSpec{
			{Dir: "jrpc2", Name: "Harness_C14_chain", Reach: []string{"delivered", "canceled-sentinel", "deadline-sentinel"}},
			{Dir: "jrpc2", Name: "Harness_C14_code", Reach: []string{"code-roundtrip", "withdata"}},
		},
	})
	addProp(&PropSpec{
		ID: "C17",
		Explanation: "Method names are symbolic byte strings (every byte arbitrary, lengths by case split). handler.Map and ServiceMap (one and two levels) are executed with symbolic registered names and compared with a reference 'first dot' split; Server.assignLocked is executed with symbolic names, both DisableBuiltin settings and a spying assigner; " +
			"setContext/invoke are executed to check InboundRequest(ctx) and ServerFromContext(ctx) in assigner and handler.",
		Bounds:      []string{"method names <= 4 bytes (Map 3, ServiceMap 4, builtin gate 5; thorough 6/7), any byte values", "registered names <= 3 bytes, service names <= 2 bytes", "ServiceMap nesting depth <= 2"},
		Outside:     []string{"names longer than the bound", "rpc.serverInfo's metrics content (expvar is a stub)"},
		Assumptions: append([]string{"sort.Strings is an engine intrinsic (insertion sort with symbolic comparisons); strings.SplitN/HasPrefix are rope-aware intrinsics"}, commonAssumptions...),
		Harnesses: []HarnessSpec{
			{Dir: "handler", Name: "Harness_C17_map", Reach: []string{"hit", "miss"}},
			{Dir: "handler", Name: "Harness_C17_servicemap", Reach: []string{"nodot", "dispatched", "unknown-service"}},
			{Dir: "handler", Name: "Harness_C17_nested", Reach: []string{"nested", "empty-segment"}},
			{Dir: "jrpc2", Name: "Harness_C17_builtin", Reach: []string{"reserved", "serverinfo", "assigned"}},
			{Dir: "jrpc2", Name: "Harness_C17_context", Reach: []string{"handler-ran"}},
		},
	})
	addProp(&PropSpec{
		ID: "C07",
		Explanation: "Inductive step over the server's reservation table: from an arbitrary state satisfying the invariant 'reserved ids == ids of in-flight calls, each with the cancel function of its handler's context' " +
			"(0..2 in-flight calls with arbitrary distinct string/number ids as opaque tokens) one real critical section is executed with symbolic arguments - a whole batch (checkAndAssignLocked, invoke, tasks.responses, deliver), CancelRequest of an arbitrary id, or stopLocked - " +
			"and the solver decides id (in)equalities, so the step covers histories of any length with any ids.",
		Bounds: []string{"<= 2 in-flight calls in the pre-state", "batch of 1..2 members, each with or without an arbitrary id", "methods: ok / failing / unknown / reserved rpc.* / empty; optional deferred validation error", "handlers atomic (run inline)"},
		Outside:     []string{"batches of 3 or more members", "interleavings inside one critical section (excluded by the mutex; see C10)"},
		Assumptions: append([]string{jsonAssumption, "context package modelled by engine intrinsics (cancel flags with parent links)"}, commonAssumptions...),
		Harnesses: []HarnessSpec{
			{Dir: "jrpc2", Name: "Harness_C07_step", Reach: []string{"batch-done", "cancel-done", "stop-done", "duplicate-rejected", "cancel-hit"}},
		},
	})
}
