package main

// Property -> harness table with the stated bounds, assumptions and what is
// outside each claim (copied into the evidence file on every run).

type HarnessSpec struct {
	Dir          string // key of harnessDirs
	Name         string
	Reach        []string // required reachability witnesses (vacuity guard)
	Bounds       map[string]string
	ThoroughOnly bool
	Tweak        func(cfg *Config, thorough bool)
}

type PropSpec struct {
	ID          string
	Explanation string
	Bounds      []string
	Outside     []string
	Assumptions []string
	Harnesses   []HarnessSpec
}

var commonAssumptions = []string{
	"engine: own SSA interpreter (gosym) is trusted to follow Go semantics for the instruction kinds it executes; every reported violation is replayed natively before it is reported",
	"integers are bit-vectors of the Go width (wrapping); strings/byte slices have concrete lengths chosen by case split, symbolic bytes",
	"solver: z3 4.8.12 without set-logic; any (error or unknown makes the check inconclusive (exit 2)",
}

var propSpecs = map[string]*PropSpec{}

func addProp(p *PropSpec) { propSpecs[p.ID] = p }

func init() {
	registerMore()
	addProp(&PropSpec{
		ID: "C12",
		Explanation: "Four harnesses over the real channel code with the real bufio.Reader (16-byte buffer) executed from source. (a) split.Recv on an arbitrary byte stream (all bytes symbolic) against the reference 'records are the terminated lines; a cut-off tail is reported whole with an error; then it keeps failing', under symbolic chunking and EOF-with-data. " +
			"(b) hdr/opthdr.Recv on a stream generated from a symbolic grammar (optional Content-Type line matching or not, optional unknown field or non-header line, Content-Length line with case variants, optional white space and an arbitrary 0..2-byte value, CRLF/LF, blank line present or missing, the stream optionally ending inside the last header line, body bytes symbolic; plus a list of spellings other number syntaxes accept: 0x1 0X2 0b1 0o2 1_0 010 1e1 1.0 +-1 0x) against a reference decoder written from the package documentation (strconv.Atoi is modelled exactly for short digit strings). (c) arbitrary short raw streams through hdr.Recv: errors only, no panic. " +
			"(d) Header-framing Recv with the Content-Length value an arbitrary non-negative 64-bit int " +
			"(decimal text kept as an opaque integer token; strconv.Atoi is its inverse) and three classes of previous receive-buffer length; " +
			"the makeslice length/capacity check of the Go runtime is an explicit path obligation, so an overflowing size*2 is found by the solver.",
		Bounds: []string{"split streams <= 4 bytes (thorough 6); header grammar: <= 3 header lines, value <= 2 bytes, body 2 bytes (thorough 0..3), declared size <= 3; raw streams <= 4 bytes (thorough 6)",
			"chunking: all-at-once with/without EOF-with-data for the header grammar (thorough: 1/2/3-byte reads and every single cut); all five policies for split",
			"Content-Length: any int in [0, 3] or (2^15, 2^63)", "previous buffer length in {0, 8, 64}", "body absent (ReadFull / CopyN stubs return EOF)",
			"allocations above 65536 elements are pruned (outside the claim): sizes in (2^15, 2^24] are not decided by this harness"},
		Outside:     []string{"RawJSON framing (encoding/json streaming decoder)", "memory exhaustion below the makeslice limit"},
		Assumptions: append([]string{"bufio.Reader.ReadString is redirected to a line script in the size harness (lines carry the opaque integer token); io.ReadFull stub: 0 bytes -> io.EOF", "runtime: make([]byte, n, c) panics iff n<0 or n>c or c>2^48 (linux/amd64 maxAlloc)"}, commonAssumptions...),
		Harnesses: []HarnessSpec{
			{Dir: "channel", Name: "Harness_C12_hdr_size", Reach: []string{"recv-returned"}},
			{Dir: "channel", Name: "Harness_C12_split", Reach: []string{"line", "cut-off-tail", "exhausted"}},
			{Dir: "channel", Name: "Harness_C12_hdr", Reach: []string{"bad-header", "bad-length", "short-body", "record", "drained"}},
			{Dir: "channel", Name: "Harness_C12_hdr_raw", Reach: []string{"raw-done"}},
		},
	})
}

var jsonAssumption = "encoding/json is a contract stub over opaque JSON tokens (gosym/json.go): validity, kind per Go type, null handling, RawMessage without surrounding white space, compact output without raw control bytes, last duplicate key wins, case-insensitive struct field match"

func registerMore() {
	registerMore2()
	addProp(&PropSpec{
		ID: "C02",
		Explanation: "One inbound record (a single member; an array of two members from representative classes; thorough: also one-member arrays of the full generator) is generated from symbolic choices - any subset of the keys jsonrpc/id/method/params/error/result/unknown, each value an opaque JSON token of symbolic kind - " +
			"and pushed through the real jmessages.parseJSON, filterBatchLocked, dispatchLocked closure (checkAndAssignLocked, invoke, tasks.responses, deliver, encode). The reply bytes are parsed back and compared with a reference classifier written from the JSON-RPC 2.0 spec and the README. " +
			"Token kinds, first bytes, ids and error codes stay symbolic, so each path is decided for all values; map iteration order of the member parser is explored exhaustively for members with <= 3 keys.",
		Bounds: []string{"quick: single non-batch member; value classes: version {2.0, other string, non-string}, method {ok, nosuch, rpc.other, empty, non-string, null}, error {object, non-object}, unknown key only with request fields",
			"thorough: all classes (adds null version/error, failing handler, rpc.serverInfo), also as one-member arrays; two-member arrays use nine representative member classes each (the full generator squared did not finish in 25 minutes)", "all map iteration orders for <= 3 present keys (thorough: <= 4), one fixed order otherwise",
			"ids of members of one batch pairwise different (duplicates: C07)", "one unknown key stands for any number", "envelope harness (started server): undecodable record, empty array, array holding a non-object, bare scalar; a call / one-call batch / empty array surrounded by 0..2 symbolic white-space bytes on each side; an undeliverable notification alone or in a batch of notifications; a three-member batch whose first member is rejected (scalar or wrong version) and whose others are valid; then a liveness probe"},
		Outside:     []string{"random and mutated records beyond the bound (sampling is not done)", "duplicate keys inside one object (resolved by encoding/json)"},
		Assumptions: append([]string{jsonAssumption, "reply-shaped member = carries a result or a well-formed error object and no method name (method absent, null, empty or not a string)"}, commonAssumptions...),
		Harnesses: []HarnessSpec{
			{Dir: "jrpc2", Name: "Harness_C02_single", Reach: []string{"dispatched", "silent", "single-reply"}},
			{Dir: "jrpc2", Name: "Harness_selftest_wire", Reach: []string{"selftest-done", "selftest-broken-json"}, Tweak: delays(0, 1),
				Bounds: map[string]string{"purpose": "engine validation: the inputs and expected replies of the repository's own TestServer_nonLibraryClient table (19 rows + 2 broken records) run through the engine; a mismatch makes the check inconclusive"}},
			{Dir: "jrpc2", Name: "Harness_C02_envelope", Reach: []string{"answered", "alive", "padded", "undeliverable-notification", "rejected-first"}},
			{Dir: "jrpc2", Name: "Harness_C02_pairs", Reach: []string{"batch-reply"},
				Bounds: map[string]string{"purpose": "arrays of two members, each from nine representative classes (call, notification, unknown / reserved method, wrong version, no id and no method name, result reply, error reply, non-object) with symbolic ids, params, results and codes"}},
			{Dir: "jrpc2", Name: "Harness_C02_batch", Reach: []string{"batch-reply"}, ThoroughOnly: true},
		},
	})
	addProp(&PropSpec{
		ID: "C03",
		Explanation: "A real started Server (reader, dispatcher, per-batch and handler goroutines as engine threads) over an instrumented channel receives two records whose members are symbolically notifications or calls; every handler blocks on a gate, an environment thread opens the notification gates in a symbolic order, calls stay gated. " +
			"Scheduling decisions at blocking points are explored up to the delay bound. Checked at quiescence: a notification of an earlier record has exited before any handler of a later record is entered; gated calls do not hold up later arrivals below the concurrency limit; handler count <= Concurrency; each handler ran exactly once.",
		Bounds: []string{"records: 2; first record 1..2 members, second record 1 member", "Concurrency 2 (thorough {1,2})", "thorough: a concurrent CancelRequest of one call or a (refused) push while dispatch is going on", "delay-bounded scheduler: <= 2 (thorough <= 3) deviations from the deterministic lowest-thread-first order; context switches only at blocking operations (preemption bound 0)", "<= 12 threads", "stop with notifications still queued: the C08 harness (1..4 notifications, delay bound 1, thorough 2)"},
		Outside:     []string{"schedules needing more delays or a preemption inside a critical section", "three or more records in flight, and two-member second records together with concurrent activity (both exceeded a 30-minute budget at delay bound 2)"},
		Assumptions: append([]string{jsonAssumption, "sync.Mutex/WaitGroup, channels, select and context are engine intrinsics; x/sync/semaphore and mds/queue are executed from source"}, commonAssumptions...),
		Harnesses: []HarnessSpec{
			{Dir: "jrpc2", Name: "Harness_C03_order", Reach: []string{"quiescent", "ordered-pair", "done"}, Tweak: delays(2, 3)},
			{Dir: "jrpc2", Name: "Harness_C08_run", Reach: []string{"restarted"}, Tweak: delays(1, 2),
				Bounds: map[string]string{"purpose": "notifications still queued when the server is stopped (1..4 notifications, as single objects or one-element batches, the first gated) run one after the other in arrival order"}},
		},
	})
	addProp(&PropSpec{
		ID: "C14",
		Explanation: "Handler errors are built from every constructor (Error with any int32 code / symbolic message / optional data token, Code.Err, Errorf, value- and pointer-receiver ErrCoder types, context sentinels, plain errors), multi-error nodes (errors.Join, two %w operands), an ErrCoder wrapping an *Error of another code, wrapped 0..2 (thorough 0..7) times with %w, and pushed through the real tasks.responses, jmessages.toJSON, parseJSON, Client.deliverLocked, Response.wait and filterError; " +
			"the solver decides the code equalities over the full int32 range. A second harness decides ErrorCode(c.Err()) == c for every int32 c and that WithData leaves its receiver unchanged (code, message and the bytes of existing data, which sit in a buffer with spare capacity and are compared against a private copy) for nil / marshalable / unmarshalable data.",
		Bounds:      []string{"wrap depth <= 2 (thorough <= 7)", "message length <= 2 bytes (thorough <= 8), every byte symbolic", "all int32 codes (bit-vector)"},
		Outside:     []string{"an ErrCoder reporting NoError for a non-nil error (excluded by assumption; the property exempts NoError)", "json.Marshal of arbitrary handler results (contract stub)"},
		Assumptions: append([]string{jsonAssumption, "errors.Is/As re-implemented in the engine following package errors (Is/As/Unwrap methods are the interpreted ones); fmt.Errorf keeps the %w operand reachable through Unwrap"}, commonAssumptions...),
		Harnesses: []HarnessSpec{
			{Dir: "jrpc2", Name: "Harness_C14_chain", Reach: []string{"delivered", "canceled-sentinel", "deadline-sentinel"}},
			{Dir: "jrpc2", Name: "Harness_C14_code", Reach: []string{"code-roundtrip", "withdata"}},
			{Dir: "jrpc2", Name: "Harness_C01_batch", Reach: []string{"unmarshalable", "error"}, Tweak: delays(1, 2),
				Bounds: map[string]string{"purpose": "handler outcomes through the real dispatcher: a result json.Marshal refuses (a function value, or a json.RawMessage that is not valid JSON) becomes an error response; coded errors keep their code"}},
		},
	})
	addProp(&PropSpec{
		ID: "C17",
		Explanation: "Method names are symbolic byte strings (every byte arbitrary, lengths by case split). handler.Map and ServiceMap (one and two levels) are executed with symbolic registered names and compared with a reference 'first dot' split; Server.assignLocked is executed with symbolic names, both DisableBuiltin settings and a spying assigner; " +
			"setContext/invoke are executed to check InboundRequest(ctx) and ServerFromContext(ctx) in assigner and handler.",
		Bounds:      []string{"method names: Map <= 3 bytes (thorough 8), ServiceMap <= 4 (thorough 12), nested <= 5 (thorough 12), builtin gate <= 5 (thorough 16); every byte symbolic", "registered names <= 3 bytes (thorough 8), service names <= 2 bytes (thorough 4)", "ServiceMap nesting depth <= 2"},
		Outside:     []string{"names longer than the bound", "rpc.serverInfo's metrics content (expvar is a stub)"},
		Assumptions: append([]string{"sort.Strings is an engine intrinsic (insertion sort with symbolic comparisons); strings.SplitN/HasPrefix are rope-aware intrinsics"}, commonAssumptions...),
		Harnesses: []HarnessSpec{
			{Dir: "handler", Name: "Harness_C17_map", Reach: []string{"hit", "miss"}},
			{Dir: "handler", Name: "Harness_C17_servicemap", Reach: []string{"nodot", "dispatched", "unknown-service"}},
			{Dir: "handler", Name: "Harness_C17_nested", Reach: []string{"nested", "empty-segment"}},
			{Dir: "handler", Name: "Harness_C17_names", Reach: []string{"names"}},
			{Dir: "jrpc2", Name: "Harness_C17_builtin", Reach: []string{"reserved", "serverinfo", "assigned"}},
			{Dir: "jrpc2", Name: "Harness_C17_context", Reach: []string{"handler-ran"}},
			{Dir: "jrpc2", Name: "Harness_C01_batch", Reach: []string{"result", "error"}, Tweak: delays(1, 2),
				Bounds: map[string]string{"purpose": "dispatch within a batch: every member whose name the assigner maps runs that handler exactly once, also behind members whose names are unknown"}},
		},
	})
	addProp(&PropSpec{
		ID: "C07",
		Explanation: "Inductive step over the server's reservation table: from an arbitrary state satisfying the invariant 'reserved ids == ids of in-flight calls, each with the cancel function of its handler's context' " +
			"(0..2 in-flight calls with arbitrary distinct string/number ids as opaque tokens) one real critical section is executed with symbolic arguments - a whole batch (checkAndAssignLocked, invoke, tasks.responses, deliver), CancelRequest of an arbitrary id, or stopLocked - " +
			"and the solver decides id (in)equalities, so the step covers histories of any length with any ids.",
		Bounds: []string{"<= 2 in-flight calls in the pre-state", "batch of 1..2 members, each with or without an arbitrary id", "methods: ok / failing / unknown / reserved rpc.* / empty; optional deferred validation error", "handlers atomic (run inline)"},
		Outside:     []string{"batches of 3 or more members", "interleavings inside one critical section (excluded by the mutex; see C10)"},
		Assumptions: append([]string{jsonAssumption, "context package modelled by engine intrinsics (cancel flags with parent links)"}, commonAssumptions...),
		Harnesses: []HarnessSpec{
			{Dir: "jrpc2", Name: "Harness_C07_step", Reach: []string{"batch-done", "cancel-done", "stop-done", "duplicate-rejected", "cancel-hit"}},
		},
	})
}

var threadAssumption = "sync.Mutex/WaitGroup, channels, select and context are engine intrinsics; x/sync/semaphore and mds/queue are executed from source; scheduler: context switches at blocking operations (quick tier: only there, preemption bound 0; thorough tier of the harnesses whose evidence shows preemption_bound 1: also once per run at a non-blocking synchronisation operation), at most `delays` deviations from the deterministic lowest-thread-first order"

// sched: delay bounds per tier, and a preemption bound for the thorough tier
// (a thread may also be switched out at a non-blocking synchronisation
// operation - lock, unlock, channel operation, go, WaitGroup, cancel - at most
// `tp` times per run; each such switch also counts as a delay).
func sched(q, t, tp int) func(*Config, bool) {
	return func(c *Config, th bool) {
		c.Delays = q
		if th {
			c.Delays = t
			c.Preempt = tp
		}
	}
}

func delays(q, t int) func(*Config, bool) {
	return func(c *Config, th bool) {
		c.Delays = q
		if th {
			c.Delays = t
		}
	}
}

func registerMore2() {
	addProp(&PropSpec{
		ID: "C15",
		Explanation: "handler.Check, FuncInfo.Wrap and the wrapper they build are executed from source; package reflect is an engine intrinsic over go/types (types are go/types types, a reflect.Value wraps an interpreter value, reflect.New allocates a real cell, Value.Call calls the real interpreted function - see gosym/reflect.go). " +
			"(1) Check on 9 functions covering the documented signature schemes and 8 values that must be rejected (nil, non-function, no context, wrong first parameter, too many parameters, second result not error, variadic, no result): accepted exactly the documented schemes, FuncInfo fields describe the signature. " +
			"(2) Wrap for each scheme x SetStrict x AllowArray on symbolic params (absent; object with a token and a symbolic string; with an unknown field; arrays of the right length, too short, too long; wrong field type): the function is called exactly once with the argument encoding/json decodes (after the array-to-field mapping), strict types and SetStrict reject unknown fields, or InvalidParams without a call; result and error pass through unchanged; no panic. " +
			"(3) the positional field-name rules on a struct with a tagged embedded field, an unexported field, a json:\"-\" field (no slot) and a json:\"-,\" field (named \"-\", a slot). (4) Request.UnmarshalParams and arrayStub.translate directly.",
		Bounds:      []string{"9 accepted + 8 rejected function shapes (programs are enumerated, params are symbolic)", "struct parameters with a RawMessage and a string field; params arrays of 1..3 elements", "string fields <= 1 symbolic byte"},
		Outside:     []string{"parameter types beyond structs of RawMessage/string/int fields and *jrpc2.Request (scalars, slices, maps, embedded pointers)", "the real package reflect: the model in gosym/reflect.go stands in for it (Kind, NumIn/In/NumOut/Out, IsVariadic, Elem, Implements, NumField/Field, New, Zero, IsNil, ValueOf, Interface, Elem, Call, StructOf, FuncOf, MakeFunc, PointerTo)"},
		Assumptions: append([]string{jsonAssumption, "reflect model over go/types (gosym/reflect.go); validated by the native replay of counterexamples (the C15 finding and the seeded change C15_a reproduce natively with the real reflect)", "json.Decoder with DisallowUnknownFields: fails iff an object key matches no field"}, commonAssumptions...),
		Harnesses: []HarnessSpec{
			{Dir: "jrpc2", Name: "Harness_C15_unmarshal", Reach: []string{"raw", "struct", "strict-ok", "strict-rejected", "wrapper-ok", "wrapper-rejected"}},
			{Dir: "handler", Name: "Harness_C15_params", Reach: []string{"wrong-arity", "translated", "passthrough"}},
			{Dir: "handler", Name: "Harness_C15_check", Reach: []string{"accepted", "rejected"}},
			{Dir: "handler", Name: "Harness_C15_wrap", Reach: []string{"invalid-params", "decoded-arg", "error-passed", "result-passed"}},
			{Dir: "handler", Name: "Harness_C15_embedded", Reach: []string{"embedded-mapped", "embedded-arity"}},
		},
	})
	addProp(&PropSpec{
		ID: "C16",
		Explanation: "(1) Positional(func(ctx, json.RawMessage, string) (string, error), \"first\", \"second\") is executed from source over the reflect model (StructOf, FuncOf, MakeFunc) and its wrapper is called with symbolic params: an array of exactly two elements (also with null), too short, too long, empty, an object with both names, with a subset, with an unknown name, a wrong element type - the function is called exactly once with element i / the named member in parameter i (missing names and nulls leave zero values), otherwise InvalidParams without a call. Name/arity mismatches and variadic functions are refused; zero positional parameters fall back to Check. " +
			"(2) Args.UnmarshalJSON (0..3 slots that are nil, *int, *string or *json.RawMessage against arrays of 0..3 elements of symbolic kind), Args.MarshalJSON, Obj.UnmarshalJSON (every map order) and arrayStub.translate at JSON-token level.",
		Bounds:      []string{"arity 2 for Positional (arities 0 and mismatches for the refusal cases)", "<= 3 slots / elements for Args", "Obj with <= 2 targets and <= 3 members"},
		Outside:     []string{"arities 3..6 and argument kinds other than RawMessage/string/int", "the real package reflect (modelled, see C15)"},
		Assumptions: append([]string{jsonAssumption, "reflect model over go/types (gosym/reflect.go)", "a JSON number decodes into an int target or fails (both allowed when the number's text is opaque)"}, commonAssumptions...),
		Harnesses: []HarnessSpec{
			{Dir: "handler", Name: "Harness_C16_positional", Reach: []string{"called", "rejected"}},
			{Dir: "handler", Name: "Harness_C16_positional_arity", Reach: []string{"arity"}},
			{Dir: "handler", Name: "Harness_C16_concurrent", Reach: []string{"concurrent"}, Tweak: func(c *Config, th bool) { c.Delays = 2; c.Preempt = 1 },
				Bounds: map[string]string{"purpose": "two concurrent invocations of one positional handler; preemption bound 1 with the reflective call into the user function as a scheduling point"}},
			{Dir: "handler", Name: "Harness_C16_custom", Reach: []string{"custom-rejected", "custom-accepted"}},
			{Dir: "handler", Name: "Harness_C16_args", Reach: []string{"not-array", "length-mismatch", "element-error", "decoded"}},
			{Dir: "handler", Name: "Harness_C16_args_marshal", Reach: []string{"marshalled"}},
			{Dir: "handler", Name: "Harness_C16_obj", Reach: []string{"decoded", "obj-done"}},
			{Dir: "handler", Name: "Harness_C15_params", Reach: []string{"translated"}},
		},
	})
	addProp(&PropSpec{
		ID: "C18",
		Explanation: "Bridge.ServeHTTP is executed with a real server.Local behind it (server and client goroutines as engine threads) on one HTTP request: method in {POST, GET, PUT}, content type in {application/json, +charset=utf-8, +charset=latin1, text/plain, none}, body invalid JSON or 1..2 (thorough 3) members that are symbolically a call to an echo method (arbitrary string/number id, params token), a notification, a statically invalid member with a usable id, or one without. " +
			"The recorded status and body are compared with the expected responses: caller's id text on every response, result equal to that call's own params, error objects for static errors, object vs array, 204 for notifications only, 405/415/error status without running a handler. A second harness runs two concurrent HTTP callers that use the same id (arbitrary, or equal to the small integers the bridge uses internally) for different calls, one of them slow; the slow caller's record is a single call or a batch whose call is preceded by a notification.",
		Bounds:      []string{"<= 2 members per request (thorough 3)", "2 concurrent callers, one call each (optionally preceded by one notification)", "delay bound 2 (thorough: 2 with preemption bound 1)"},
		Outside:     []string{"real HTTP transport", "a ParseRequest hook", "ids of other JSON kinds (covered by ParseRequests in C13)"},
		Assumptions: append([]string{jsonAssumption, threadAssumption, "net/http.Header from source; mime.ParseMediaType run natively on the (concrete) header value; http.ResponseWriter and request body are harness recorders; io.ReadAll returns the harness body"}, commonAssumptions...),
		Harnesses: []HarnessSpec{
			{Dir: "jhttp", Name: "Harness_C18_bridge", Reach: []string{"405", "415", "bad-json", "204", "single", "array"}},
			{Dir: "jhttp", Name: "Harness_C18_concurrent", Reach: []string{"concurrent"}, Tweak: sched(2, 2, 1)},
		},
	})
	addProp(&PropSpec{
		ID: "C19",
		Explanation: "(1) ParseQuery and ParseBasic on a request whose single query value is a symbolic string over the alphabet {\" ' + - 0 1 . e x _ n a i f} or one of the words true/false/null/inf/nan/infinity/-inf/+inf in lower, upper or title case: no panic, non-empty method equal to the trimmed path, parameters JSON-marshalable (checked by marshalling them through the json stub, where NaN/Inf fail), typing per the documented cascade (values strconv accepts beyond the documented grammar may be finite numbers: 'liberal typing', tolerated). " +
			"(2) the path trimmed of slashes for every path of <= 4 symbolic bytes. (3) Getter.ServeHTTP over a real server.Local: 400 for an unparsable URL, 200 with the result, 404 for method-not-found (unknown method, or a handler error with that code), 500 otherwise; body always valid JSON. " +
			"(4) A real jrpc2.Client over the real jhttp.Channel against a real Bridge through an in-process HTTPClient (Do calls Bridge.ServeHTTP; response bodies count Close): call, notification (204 short-circuit), batch with a notification and an unknown method, HTTP failure, an HTTP answer with any status in 100..599 other than 200/204, a request still in flight at Close; results equal the direct connection's, after Client.Close every response body is closed and no engine thread of the library is left.",
		Bounds:      []string{"one query key; value <= 3 bytes over the 14-letter alphabet or a listed word", "path <= 4 bytes", "handler error code: any int32"},
		Outside:     []string{"the real net/http client and transport (the HTTPClient is in-process; http.NewRequest is a stub that builds a minimal request without URL parsing)", "url parsing / percent-decoding (Request.ParseForm is a stub: the harness supplies Form)"},
		Assumptions: append([]string{jsonAssumption, threadAssumption, "strconv.ParseInt/ParseFloat: bytes are case-split to representatives (digits into zero/non-zero) and the real strconv function is run on the representative; range errors with >= 3 exponent digits are nondeterministic", "base64.RawStdEncoding.DecodeString is run on the concretised text", "net/http.Header and url.Values executed from source; http.ResponseWriter is a harness recorder"}, commonAssumptions...),
		Harnesses: []HarnessSpec{
			{Dir: "jhttp", Name: "Harness_C19_query", Reach: []string{"returned", "number", "quoted", "bytes", "literal", "liberal-number"}},
			{Dir: "jhttp", Name: "Harness_C19_path", Reach: []string{"returned"}},
			{Dir: "jhttp", Name: "Harness_C19_getter", Reach: []string{"200", "400", "404", "500"}},
			{Dir: "jhttp", Name: "Harness_C19_channel", Reach: []string{"call", "notify", "batch", "http-failure", "http-status", "close-in-flight", "closed"}},
		},
	})
	addProp(&PropSpec{
		ID: "C20",
		Explanation: "The real server.Loop, with real jrpc2 servers, is run as engine threads over a scripted in-memory Accepter: 0..2 connections; per connection the service's Assigner symbolically fails; the accepter then fails with a closing error, fails with another error, or blocks until the context ends; connections end by client close or context cancellation; the context may also end while a service is inside its Assigner call; scheduling decisions explored up to the delay bound. " +
			"Asserted: one newService per connection; Loop does not return while a started server runs; exactly one Finish per started server and none for a failed Assigner, whose connection must be closed; Loop's return value.",
		Bounds:      []string{"<= 2 connections", "delay bound 2 (thorough 3; the NetAccepter harness in the thorough tier also with preemption bound 1), context switches at blocking operations", "no RPC traffic on the connections (server behaviour is C01-C10)"},
		Outside:     []string{"a real net.Listener and real sockets under NetAccepter (a scripted in-memory listener is used)", "handler durations (no handlers run here)"},
		Assumptions: append([]string{threadAssumption}, commonAssumptions...),
		Harnesses: []HarnessSpec{{Dir: "server", Name: "Harness_C20_loop", Reach: []string{"waits-for-servers", "finished", "assigner-failed", "accept-error", "done"}, Tweak: delays(2, 3)},
			{Dir: "server", Name: "Harness_C20_netaccepter", Reach: []string{"net-done"}, Tweak: sched(2, 3, 1),
				Bounds: map[string]string{"purpose": "Loop over the real NetAccepter with a scripted net.Listener (0..1 connections, blocks until closed, then net.ErrClosed): the context ends before Loop starts, while Loop is blocked in Accept, or between two Accept calls"}}},
	})
	addProp(&PropSpec{
		ID: "C11",
		Explanation: "1..2 (thorough 3) records of 0..3 symbolic bytes each, plus optionally one record longer than the bufio buffer, are written by the real Send of the Split and Header framings (StrictHeader with and without content type, and the opthdr wrapper used by Header/LSP); the resulting byte stream is served by a reader with a symbolic chunking policy " +
			"(all at once; uniform 1-, 2-, 3-byte reads; one cut at every position; final bytes with or without io.EOF) to the real bufio.Reader (executed from source, 16-byte buffer so that buffer-full continuation and refills occur) and the real Recv. Received records must equal the sent ones byte for byte and in order, then io.EOF, then errors. Direct (Go channels as engine channels): 1..3 (thorough 4) records that are nil, empty or 0..2 symbolic bytes, pipelined by a sender goroutine, then Close. Send must refuse a record containing the split byte without writing (split byte: any byte value, symbolic; round trip: split byte in {LF, 0xff, 0x00, 0x1e}).",
		Bounds:      []string{"records: <= 2 (thorough 3) x <= 3 symbolic bytes + optional record of 15/16/17/18/32 bytes (split) or 20 bytes (header)", "bufio buffer 16 bytes (production: 4096; the code is parametric)", "chunking policies as listed"},
		Outside:     []string{"RawJSON (boundaries found by encoding/json's streaming decoder: not encodable)", "multi-megabyte records and the hdr receive-buffer grow/shrink policy beyond 64 bytes"},
		Assumptions: append([]string{"bufio.Reader, io.ReadFull, bytes helpers executed from source; bytes.Buffer and strings.Builder are engine intrinsics with the same observable behaviour"}, commonAssumptions...),
		Harnesses: []HarnessSpec{
			{Dir: "channel", Name: "Harness_C11_split", Reach: []string{"roundtrip"}},
			{Dir: "channel", Name: "Harness_C11_split_guard", Reach: []string{"refused", "accepted"}},
			{Dir: "channel", Name: "Harness_C11_hdr", Reach: []string{"roundtrip"}},
			{Dir: "channel", Name: "Harness_C11_direct", Reach: []string{"direct"}},
		},
	})
	addProp(&PropSpec{
		ID: "C01",
		Explanation: "One inbound message of 1..2 (thorough 1..3) valid requests, each symbolically a call (arbitrary distinct id) or a notification, is run through the real dispatchLocked closure (handler goroutines as engine threads) with symbolic handler outcomes: any result token, *Error with any int32 code and optional data of any kind (valid JSON or not), wrapped coded error, context error, unmarshalable result (a function value, or a json.RawMessage that is not JSON) - also for notifications. " +
			"The single outbound message is parsed back: one response per call, in request order, with that call's id and that handler's outcome; array iff the inbound was an array; nothing for notifications whatever their handlers return; sent after every handler exit (logical clock). C02's harness covers invalid members, C03's the started server, C09's filter step the hand-over of requests by a push-enabled server's reader.",
		Bounds:      []string{"batch <= 3 members (quick: three-member batches only mix successful and unknown-method members; thorough: every outcome)", "Concurrency in {1,2}", "delay bound 2 (thorough 3)", "ids of one batch pairwise different"},
		Outside:     []string{"several inbound messages in flight at once (C03 harness checks per-request run counts there)", "batches larger than the bound"},
		Assumptions: append([]string{jsonAssumption, threadAssumption}, commonAssumptions...),
		Harnesses: []HarnessSpec{
			{Dir: "jrpc2", Name: "Harness_C01_batch", Reach: []string{"no-output", "result", "error", "unmarshalable"}, Tweak: delays(2, 3)},
			{Dir: "jrpc2", Name: "Harness_C03_order", Reach: []string{"done"}, Tweak: delays(1, 2),
				Bounds: map[string]string{"purpose": "several inbound messages in flight on a started server: exactly one response per call id across all outbound messages, none for notifications"}},
			{Dir: "jrpc2", Name: "Harness_C09_step", Reach: []string{"reply-matched"},
				Bounds: map[string]string{"purpose": "the inbound filter of a push-enabled server hands every request on to dispatch, in order, whatever callbacks are outstanding (a call whose id equals an outstanding callback's id is still a call)"}},
		},
	})
	clientExpl := "Inductive single-step verification of the client: from an arbitrary state allowed by the invariant (0..2 pending requests with distinct decimal ids below a symbolic id counter, each with an empty unsettled slot; running or stopped) one real operation is executed with symbolic arguments - deliverLocked of an arbitrary inbound member, a whole Client.Batch of 1..3 specs (goroutine, then its replies in reverse order), waitComplete after the context ended (before/after the reply), stopLocked with each cause twice, operations on a stopped client - and the invariant plus the per-step contract are asserted. "
	addProp(&PropSpec{
		ID:          "C04",
		Explanation: clientExpl + "C04 clauses: a reply completes exactly the request whose id text it bears and nothing else; new ids differ from all ids in flight and stay below the counter; Batch returns responses in spec order without notifications, each with the reply for its own id; no inbound member panics (wait's id check included).",
		Bounds:      []string{"<= 2 pending requests in the pre-state", "Batch of 1..3 specs (thorough 4)", "id counter any value in [1, 2^40)", "delay bound 2 (thorough 3)"},
		Outside:     []string{"reply ids that are textually different but numerically equal to a pending id (e.g. 01, 1.0) are 'other ids' (the client compares text)", "grouping of replies into arrays is a sequence of deliverLocked steps (covered by induction, not run as one record)"},
		Assumptions: append([]string{jsonAssumption, threadAssumption, "strconv.FormatInt of a symbolic integer is an opaque decimal token, injective in the integer"}, commonAssumptions...),
		Harnesses: []HarnessSpec{{Dir: "jrpc2", Name: "Harness_C04_step", Reach: []string{"delivered", "unknown-id", "sent", "notes-only", "send-failed"}, Tweak: delays(2, 3)},
			{Dir: "jrpc2", Name: "Harness_C04_stream", Reach: []string{"stream-done"}, Tweak: sched(2, 2, 1)},
			{Dir: "jrpc2", Name: "Harness_C04_batchstream", Reach: []string{"batchstream-done"}, Tweak: sched(2, 3, 1)}},
	})
	addProp(&PropSpec{
		ID:          "C05",
		Explanation: clientExpl + "C05 clauses: each response slot receives at most one completion (whoever removes the id from the pending set writes); the reply wins if delivered first, otherwise the context's own error; stop records the first cause, closes the channel once, ends every pending context and the callback context, OnStop once, OnCancel exactly once for each request that ended without a reply (by its own context or by the stop) and never for an answered one, hooks outside the lock; a stopped client fails without transmitting; a failed Send registers nothing.",
		Bounds:      []string{"<= 2 pending requests in the pre-state", "one step per run (histories by induction)", "delay bound 2 (thorough 3)"},
		Outside:     []string{"'leaving no goroutine behind' beyond the threads of one step", "deadline (as opposed to cancel) contexts in the step harness: filterError's mapping of both codes is decided in C14"},
		Assumptions: append([]string{jsonAssumption, threadAssumption}, commonAssumptions...),
		Harnesses: []HarnessSpec{{Dir: "jrpc2", Name: "Harness_C04_step", Reach: []string{"cancelled", "deadline", "too-late-cancel", "stopped", "stopped-send", "send-failed"}, Tweak: delays(2, 3)},
			{Dir: "jrpc2", Name: "Harness_C10_client", Reach: []string{"closed", "close-waits"}, Tweak: sched(2, 2, 1)},
			{Dir: "jrpc2", Name: "Harness_C04_batchstream", Reach: []string{"batchstream-done"}, Tweak: sched(2, 3, 1)}},
	})
	addProp(&PropSpec{
		ID: "C10",
		Explanation: "Every threaded and step harness hands the library an instrumented channel.Channel that asserts, inside each call and on every explored schedule: at most one Send in progress, at most one Recv in progress, no Send/Close overlap, Close exactly once per Start/NewClient, Send and Close only while the owner's mutex is held by the calling thread (the engine's mutex intrinsic knows the holder), " +
			"and that every record passed to Send parses as one JSON object or a non-empty array of objects. C10's check runs the started-server harnesses (C03, C08, and C02's envelope harness with records that are no request, padded records and undeliverable notifications), the push and client step harnesses (C09, C04) and a real NewClient with callback/notification handlers racing with Call/Notify/Close.",
		Bounds:      []string{"the workloads of the listed harnesses", "delay bound 2; context switches at blocking operations"},
		Outside:     []string{"workloads outside those harnesses; preemption inside a critical section is excluded by the lock-held assertion itself"},
		Assumptions: append([]string{jsonAssumption, threadAssumption}, commonAssumptions...),
		Harnesses: []HarnessSpec{
			{Dir: "jrpc2", Name: "Harness_C10_client", Reach: []string{"closed"}, Tweak: sched(2, 2, 1)},
			{Dir: "jrpc2", Name: "Harness_C02_envelope", Reach: []string{"answered", "padded", "undeliverable-notification"}},
			{Dir: "jrpc2", Name: "Harness_C08_run", Reach: []string{"restarted"}, Tweak: delays(1, 2)},
			{Dir: "jrpc2", Name: "Harness_C03_order", Reach: []string{"done"}, Tweak: delays(1, 2)},
			{Dir: "jrpc2", Name: "Harness_C09_step", Reach: []string{"notified", "callback-replied"}},
			{Dir: "jrpc2", Name: "Harness_C04_step", Reach: []string{"sent", "stopped"}},
		},
	})
	addProp(&PropSpec{
		ID: "C06",
		Explanation: "(1) ServerOptions.concurrency for every 64-bit Concurrency value and NumCPU >= 1, and the capacity of the semaphore NewServer builds (real x/sync/semaphore source). (2) A batch of 3 gated calls (+ optionally rpc.serverInfo) through the real dispatcher closure with limit in {1,2}: at quiescence exactly `limit` handlers run while the others wait (never more; work-conserving), a waiting call cancelled by CancelRequest never runs and is answered with the cancellation code, all slots are free at the end; optionally a gated notification ahead of the calls and a failing notification behind them. (3) A handler that waits inside Server.Callback for the reply to its own push still holds its slot: limit+1 handlers for limit slots, the push answered later. (4) rpc.serverInfo arriving while user handlers hold every slot: its observable work (walking the assigner's Names) happens only once a slot is free. C01/C03 harnesses additionally assert the limit.",
		Bounds:      []string{"Concurrency: any int (options); limit in {1,2} (run; thorough {1,2,3})", "3 calls (thorough 4) + optional built-in + optional notifications", "delay bound 2 (thorough 3)"},
		Outside:     []string{"limits above 3 in the threaded run", "fairness among waiters"},
		Assumptions: append([]string{jsonAssumption, threadAssumption}, commonAssumptions...),
		Harnesses: []HarnessSpec{
			{Dir: "jrpc2", Name: "Harness_C06_opts", Reach: []string{"explicit", "default"}},
			{Dir: "jrpc2", Name: "Harness_C06_run", Reach: []string{"done"}, Tweak: sched(2, 2, 1)},
			{Dir: "jrpc2", Name: "Harness_C06_callback", Reach: []string{"waiting-in-callback", "done"}, Tweak: sched(2, 3, 1)},
			{Dir: "jrpc2", Name: "Harness_C06_builtin", Reach: []string{"builtin-done"}, Tweak: sched(2, 3, 1)},
		},
	})
	addProp(&PropSpec{
		ID: "C08",
		Explanation: "A real started Server over the instrumented channel: symbolic traffic (a gated call; 0..4 notifications, optionally gated so that some are still queued at the stop, with absent or null ids, as single objects or one-element batches; a batch of a gated notification followed by a call or by another notification; optionally a malformed record: invalid JSON / empty batch / invalid id-less member), then one stop cause (Stop, peer EOF, Recv error), on channels whose Close does and does not unblock Recv, optionally a late record after Stop (valid call, notification, malformed), then WaitStatus, then restart on a fresh channel and one call. " +
			"WaitStatus returns only after every handler; every valid notification received before the stop runs exactly once, in arrival order, one after the other; no reservation and no library goroutine survives. Any panic, deadlock or wrong status on any explored schedule is a violation.",
		Bounds:      []string{"<= 1 call, <= 4 notifications, <= 1 two-member batch, <= 1 malformed record before the stop, <= 1 late record", "one stop cause per run", "delay bound 2 (thorough 3), <= 12 threads"},
		Outside:     []string{"a reader parked forever in a Recv that Close does not unblock and whose peer never closes (the channel's contract)", "Send errors (C05 covers the client side)"},
		Assumptions: append([]string{jsonAssumption, threadAssumption}, commonAssumptions...),
		Harnesses: []HarnessSpec{{Dir: "jrpc2", Name: "Harness_C08_run", Reach: []string{"restarted", "call-cancelled", "late-record"}, Tweak: delays(2, 3)},
			{Dir: "jrpc2", Name: "Harness_C09_step", Reach: []string{"push-send-failed", "callback-stopped"}}},
	})
	addProp(&PropSpec{
		ID: "C09",
		Explanation: "Inductive single-step verification of server push: from an arbitrary valid state (push on/off, running/stopped, 0..2 outstanding callbacks with distinct decimal ids below a symbolic counter) one real operation: Notify; Callback in a goroutine followed by its reply / context end / Stop; the reader's filterBatchLocked on a batch of 1..2 members (reply to an outstanding callback, late/duplicate/unsolicited reply with an arbitrary id, request); waitCallback after the context ended, before or after the reply.",
		Bounds:      []string{"<= 2 outstanding callbacks (thorough 4)", "batch <= 2 (thorough 4)", "callback counter any value in [1, 2^40)"},
		Outside:     []string{"more than one callback awaited from inside handlers at once"},
		Assumptions: append([]string{jsonAssumption, threadAssumption}, commonAssumptions...),
		Harnesses: []HarnessSpec{{Dir: "jrpc2", Name: "Harness_C09_parked", Reach: []string{"parked-done"}, Tweak: sched(2, 2, 1)}, {Dir: "jrpc2", Name: "Harness_C09_step", Reach: []string{"notify-unsupported", "notify-closed", "notified", "callback-unsupported", "callback-closed",
			"callback-replied", "callback-cancelled", "callback-stopped", "reply-matched", "late-reply-dropped", "ctx-ended", "ctx-too-late"}}},
	})
	addProp(&PropSpec{
		ID: "C13",
		Explanation: "(1) Arbitrary protocol messages (symbolic id, method bytes, params/result tokens, error with any code) through the real jmessage(s).toJSON and back through the real parser: equality of every field, version marker, no raw control byte written by the library (tokens carry an 'inner white space' attribute; json.Marshal compacts). " +
			"(2) The real producers: Client.req/note with marshalParams, Server.pushReq, Response.MarshalJSON after SetID. (3) ParseRequests on generated members: one entry per member, flagged exactly when structurally invalid, with a server code; invalid JSON is a top-level error. (4) ParseRequests on a valid single request or batch of 1..2 calls surrounded by 0..2 symbolic white-space bytes on each side: same entries as without the padding.",
		Bounds:      []string{"method names <= 2 bytes (symbolic)", "round trip: 1 message (thorough: batches of 2)", "ParseRequests: one generated member (thorough: all generator classes, as a single request and as a one-member batch)", "member generator as in C02"},
		Outside:     []string{"validity / UTF-8 of json.Marshal's own output (encoding/json is a stub): unicode, quotes and HTML metacharacters in method names are handled inside it", "an independent validator (only the library's parser and the engine's JSON reader are used)", "ParseRequests on batches of two generated members (did not finish in 40 minutes; pairs of members are C02_batch's subject)"},
		Assumptions: append([]string{jsonAssumption}, commonAssumptions...),
		Harnesses: []HarnessSpec{
			{Dir: "jrpc2", Name: "Harness_C13_roundtrip", Reach: []string{"roundtrip"}},
			{Dir: "jrpc2", Name: "Harness_C13_producers", Reach: []string{"bad-params", "client-request", "push", "response"}},
			{Dir: "jrpc2", Name: "Harness_C13_padded", Reach: []string{"padded"}},
			{Dir: "jhttp", Name: "Harness_C18_bridge", Reach: []string{"single", "array"},
				Bounds: map[string]string{"purpose": "the HTTP bridge's replies (Response.MarshalJSON after SetID) are valid JSON-RPC responses that carry the caller's own id text, also when notifications precede calls in a batch"}},
			{Dir: "jrpc2", Name: "Harness_C13_parse", Reach: []string{"valid-member", "invalid-member", "invalid-json"}},
		},
	})
}
