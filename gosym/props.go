package main

// Property -> harness table with the stated bounds, assumptions and what is
// outside each claim (copied into the evidence file on every run).

type HarnessSpec struct {
	Dir          string // key of harnessDirs
	Name         string
	Reach        []string // required reachability witnesses (vacuity guard)
	Bounds       map[string]string
	ThoroughOnly bool
	Tweak        func(cfg *Config, thorough bool)
}

type PropSpec struct {
	ID          string
	Explanation string
	Bounds      []string
	Outside     []string
	Assumptions []string
	Harnesses   []HarnessSpec
}

var commonAssumptions = []string{
	"engine: own SSA interpreter (gosym) is trusted to follow Go semantics for the instruction kinds it executes; every reported violation is replayed natively before it is reported",
	"integers are bit-vectors of the Go width (wrapping); strings/byte slices have concrete lengths chosen by case split, symbolic bytes",
	"solver: z3 4.8.12 without set-logic; any (error or unknown makes the check inconclusive (exit 2)",
}

var propSpecs = map[string]*PropSpec{}

func addProp(p *PropSpec) { propSpecs[p.ID] = p }

func init() {
	addProp(&PropSpec{
		ID: "C12",
		Explanation: "Header-framing Recv executed symbolically from /repo's channel/hdr.go with the Content-Length value an arbitrary non-negative 64-bit int " +
			"(decimal text kept as an opaque integer token; strconv.Atoi is its inverse) and three classes of previous receive-buffer length; " +
			"the makeslice length/capacity check of the Go runtime is an explicit path obligation, so an overflowing size*2 is found by the solver.",
		Bounds: []string{"Content-Length: any int in [0, 2^63)", "previous buffer length in {0, 8, 64}", "body absent (ReadFull stub returns EOF)",
			"allocations above 65536 elements are pruned (outside the claim): sizes in (32768, 2^47] are not decided"},
		Outside:     []string{"RawJSON framing (encoding/json streaming decoder)", "memory exhaustion below the makeslice limit"},
		Assumptions: append([]string{"bufio.Reader.ReadString is redirected to a line script in the size harness (lines carry the opaque integer token); io.ReadFull stub: 0 bytes -> io.EOF", "runtime: make([]byte, n, c) panics iff n<0 or n>c or c>2^48 (linux/amd64 maxAlloc)"}, commonAssumptions...),
		Harnesses: []HarnessSpec{
			{Dir: "channel", Name: "Harness_C12_hdr_size", Reach: []string{"recv-returned"}},
		},
	})
}
