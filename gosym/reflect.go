package main

// A model of the part of package reflect that package handler uses, over
// go/types and interpreter values.  reflect has no Go source semantics the
// engine could execute (it reads runtime type descriptors), so - like
// channels, mutexes and contexts - it is an engine intrinsic: types are
// go/types types, a reflect.Value wraps an interpreter value, Value.Call calls
// the real (interpreted) function, reflect.New allocates a real cell.
//
// reflect.Value is a struct {typ_, ptr, flag}; the engine stores its own
// descriptor in the first field.

import (
	"go/token"
	"go/types"

	"golang.org/x/tools/go/ssa"
)

type rvalue struct {
	t    types.Type
	v    Value
	cell *Value // address of the value when it came from New(...).Elem()
}

func (th *Thread) mkRValue(rv *rvalue) Value {
	return Struct{&Opaque{kind: "rvalue", data: rv}, (*Value)(nil), mkBV(64, 1)}
}

func (th *Thread) rvalueOf(v Value) *rvalue {
	s, ok := v.(Struct)
	if !ok || len(s) == 0 {
		th.st.abort("reflect.Value expected, got %T", v)
	}
	o, ok := s[0].(*Opaque)
	if !ok || o.kind != "rvalue" {
		// the zero reflect.Value
		return &rvalue{}
	}
	return o.data.(*rvalue)
}

func rtypeOfValue(th *Thread, v Value) types.Type {
	iv, ok := v.(Iface)
	if !ok || iv.t == nil {
		th.runtimePanic("nil pointer dereference", "method call on nil reflect.Type")
	}
	o, ok := iv.v.(*Opaque)
	if !ok || o.kind != "rtype" {
		th.st.abort("reflect.Type expected")
	}
	return o.data.(types.Type)
}

func reflectKind(t types.Type) uint64 {
	switch u := t.Underlying().(type) {
	case *types.Basic:
		switch u.Kind() {
		case types.Bool:
			return 1
		case types.Int:
			return 2
		case types.Int8:
			return 3
		case types.Int16:
			return 4
		case types.Int32:
			return 5
		case types.Int64:
			return 6
		case types.Uint:
			return 7
		case types.Uint8:
			return 8
		case types.Uint16:
			return 9
		case types.Uint32:
			return 10
		case types.Uint64:
			return 11
		case types.Uintptr:
			return 12
		case types.Float32:
			return 13
		case types.Float64:
			return 14
		case types.String:
			return 24
		case types.UnsafePointer:
			return 26
		}
	case *types.Array:
		return 17
	case *types.Chan:
		return 18
	case *types.Signature:
		return 19
	case *types.Interface:
		return 20
	case *types.Map:
		return 21
	case *types.Pointer:
		return 22
	case *types.Slice:
		return 23
	case *types.Struct:
		return 25
	}
	return 0
}

func (th *Thread) structFieldValue(st *types.Struct, i int) Value {
	p := th.st.eng.P.pkgs["reflect"]
	sft := p.Type("StructField").Type().Underlying().(*types.Struct)
	out := zero(sft).(Struct)
	f := st.Field(i)
	for k := 0; k < sft.NumFields(); k++ {
		switch sft.Field(k).Name() {
		case "Name":
			out[k] = concreteStr(f.Name())
		case "PkgPath":
			if !f.Exported() {
				pp := "main"
				if f.Pkg() != nil {
					pp = f.Pkg().Path()
				}
				out[k] = concreteStr(pp)
			}
		case "Type":
			out[k] = th.rtypeIface(f.Type())
		case "Tag":
			out[k] = concreteStr(st.Tag(i))
		case "Anonymous":
			out[k] = mkBool(f.Embedded())
		case "Index":
			out[k] = Slice{a: []Value{mkBV(64, uint64(i))}}
		}
	}
	return out
}

func (th *Thread) rtypeMethodFull(o *Opaque, name string) *Native {
	t := o.data.(types.Type)
	sig := func() *types.Signature {
		s, ok := t.Underlying().(*types.Signature)
		if !ok {
			th.runtimePanic("reflect", "reflect: %s of non-func type %v", name, t)
		}
		return s
	}
	idx := func(a []Value) int { return int(a[1].(*Term).Int()) }
	switch name {
	case "Kind":
		return &Native{name: "rtype.Kind", fn: func(th *Thread, a []Value) Value { return mkBV(64, reflectKind(t)) }}
	case "NumIn":
		return &Native{name: "rtype.NumIn", fn: func(th *Thread, a []Value) Value { return mkBV(64, uint64(sig().Params().Len())) }}
	case "NumOut":
		return &Native{name: "rtype.NumOut", fn: func(th *Thread, a []Value) Value { return mkBV(64, uint64(sig().Results().Len())) }}
	case "In":
		return &Native{name: "rtype.In", fn: func(th *Thread, a []Value) Value {
			i := idx(a)
			if i < 0 || i >= sig().Params().Len() {
				th.runtimePanic("reflect", "reflect: Func index out of bounds")
			}
			return th.rtypeIface(sig().Params().At(i).Type())
		}}
	case "Out":
		return &Native{name: "rtype.Out", fn: func(th *Thread, a []Value) Value {
			i := idx(a)
			if i < 0 || i >= sig().Results().Len() {
				th.runtimePanic("reflect", "reflect: Func index out of bounds")
			}
			return th.rtypeIface(sig().Results().At(i).Type())
		}}
	case "IsVariadic":
		return &Native{name: "rtype.IsVariadic", fn: func(th *Thread, a []Value) Value { return mkBool(sig().Variadic()) }}
	case "Elem":
		return &Native{name: "rtype.Elem", fn: func(th *Thread, a []Value) Value {
			switch u := t.Underlying().(type) {
			case *types.Pointer:
				return th.rtypeIface(u.Elem())
			case *types.Slice:
				return th.rtypeIface(u.Elem())
			case *types.Array:
				return th.rtypeIface(u.Elem())
			case *types.Map:
				return th.rtypeIface(u.Elem())
			case *types.Chan:
				return th.rtypeIface(u.Elem())
			}
			th.runtimePanic("reflect", "reflect: Elem of invalid type %v", t)
			return nil
		}}
	case "Implements":
		return &Native{name: "rtype.Implements", fn: func(th *Thread, a []Value) Value {
			u := rtypeOfValue(th, a[1])
			it, ok := u.Underlying().(*types.Interface)
			if !ok {
				th.runtimePanic("reflect", "reflect: non-interface type passed to Type.Implements")
			}
			return mkBool(types.Implements(t, it))
		}}
	case "NumField":
		return &Native{name: "rtype.NumField", fn: func(th *Thread, a []Value) Value {
			s, ok := t.Underlying().(*types.Struct)
			if !ok {
				th.runtimePanic("reflect", "reflect: NumField of non-struct type %v", t)
			}
			return mkBV(64, uint64(s.NumFields()))
		}}
	case "Field":
		return &Native{name: "rtype.Field", fn: func(th *Thread, a []Value) Value {
			s, ok := t.Underlying().(*types.Struct)
			i := idx(a)
			if !ok || i < 0 || i >= s.NumFields() {
				th.runtimePanic("reflect", "reflect: Field index out of bounds")
			}
			return th.structFieldValue(s, i)
		}}
	case "String", "Name":
		return &Native{name: "rtype.String", fn: func(th *Thread, a []Value) Value { return concreteStr(t.String()) }}
	}
	th.st.abort("reflect.Type.%s not modelled", name)
	return nil
}

func registerReflect(e *Engine) {
	reg := func(name string, f Intrinsic) { e.intrinsics[name] = f }
	reg("reflect.ValueOf", func(th *Thread, fn *ssa.Function, a []Value) Value {
		iv := a[0].(Iface)
		if iv.t == nil {
			return zero(fn.Signature.Results().At(0).Type())
		}
		return th.mkRValue(&rvalue{t: iv.t, v: iv.v})
	})
	reg("reflect.New", func(th *Thread, fn *ssa.Function, a []Value) Value {
		t := rtypeOfValue(th, a[0])
		cell := new(Value)
		*cell = zero(t)
		return th.mkRValue(&rvalue{t: types.NewPointer(t), v: cell})
	})
	reg("reflect.Zero", func(th *Thread, fn *ssa.Function, a []Value) Value {
		t := rtypeOfValue(th, a[0])
		return th.mkRValue(&rvalue{t: t, v: zero(t)})
	})
	reg("(reflect.Value).IsNil", func(th *Thread, fn *ssa.Function, a []Value) Value {
		rv := th.rvalueOf(a[0])
		switch rv.t.Underlying().(type) {
		case *types.Pointer:
			return mkBool(rv.v.(*Value) == nil)
		case *types.Interface:
			return mkBool(rv.v.(Iface).t == nil)
		case *types.Slice:
			return mkBool(rv.v.(Slice).a == nil)
		}
		th.st.abort("reflect.Value.IsNil of %v not modelled", rv.t)
		return nil
	})
	reg("(reflect.Value).Interface", func(th *Thread, fn *ssa.Function, a []Value) Value {
		rv := th.rvalueOf(a[0])
		if rv.t == nil {
			th.runtimePanic("reflect", "reflect: call of reflect.Value.Interface on zero Value")
		}
		if _, isIface := rv.t.Underlying().(*types.Interface); isIface {
			return rv.v // the dynamic value (an Iface) as `any`
		}
		return Iface{t: rv.t, v: rv.v}
	})
	reg("(reflect.Value).Elem", func(th *Thread, fn *ssa.Function, a []Value) Value {
		rv := th.rvalueOf(a[0])
		switch u := rv.t.Underlying().(type) {
		case *types.Pointer:
			cell := rv.v.(*Value)
			if cell == nil {
				return zero(fn.Signature.Results().At(0).Type())
			}
			return th.mkRValue(&rvalue{t: u.Elem(), v: copyVal(*cell), cell: cell})
		case *types.Interface:
			iv := rv.v.(Iface)
			if iv.t == nil {
				return zero(fn.Signature.Results().At(0).Type())
			}
			return th.mkRValue(&rvalue{t: iv.t, v: iv.v})
		}
		th.runtimePanic("reflect", "reflect: call of reflect.Value.Elem on %v Value", rv.t)
		return nil
	})
	reg("(reflect.Value).Kind", func(th *Thread, fn *ssa.Function, a []Value) Value {
		rv := th.rvalueOf(a[0])
		if rv.t == nil {
			return mkBV(64, 0)
		}
		return mkBV(64, reflectKind(rv.t))
	})
	reg("(reflect.Value).Type", func(th *Thread, fn *ssa.Function, a []Value) Value {
		rv := th.rvalueOf(a[0])
		if rv.t == nil {
			th.runtimePanic("reflect", "reflect: call of reflect.Value.Type on zero Value")
		}
		return th.rtypeIface(rv.t)
	})
	reg("(reflect.Value).NumField", func(th *Thread, fn *ssa.Function, a []Value) Value {
		rv := th.rvalueOf(a[0])
		s, ok := rv.t.Underlying().(*types.Struct)
		if !ok {
			th.runtimePanic("reflect", "reflect: NumField of non-struct")
		}
		return mkBV(64, uint64(s.NumFields()))
	})
	reg("(reflect.Value).Field", func(th *Thread, fn *ssa.Function, a []Value) Value {
		rv := th.rvalueOf(a[0])
		s, ok := rv.t.Underlying().(*types.Struct)
		i := int(a[1].(*Term).Int())
		if !ok || i < 0 || i >= s.NumFields() {
			th.runtimePanic("reflect", "reflect: Field index out of range")
		}
		return th.mkRValue(&rvalue{t: s.Field(i).Type(), v: copyVal(rv.v.(Struct)[i])})
	})
	reg("(reflect.Value).Call", func(th *Thread, fn *ssa.Function, a []Value) Value {
		rv := th.rvalueOf(a[0])
		sig, ok := rv.t.Underlying().(*types.Signature)
		if !ok {
			th.runtimePanic("reflect", "reflect: call of non-function")
		}
		// entering user code through reflection is a scheduling point (only
		// taken under a preemption bound > 0), placed before the argument
		// vector is read: vectors shared between concurrent invocations show
		// up here
		th.yield("reflect-call")
		in := a[1].(Slice).a
		if len(in) != sig.Params().Len() {
			th.runtimePanic("reflect", "reflect: Call with wrong number of input arguments")
		}
		args := make([]Value, len(in))
		for i, x := range in {
			arv := th.rvalueOf(x)
			pt := sig.Params().At(i).Type()
			args[i] = th.convertForParam(arv, pt)
		}
		res := th.callValue(rv.v, args, "reflect.Call")
		var outs []Value
		switch sig.Results().Len() {
		case 0:
		case 1:
			outs = []Value{th.mkRValue(&rvalue{t: sig.Results().At(0).Type(), v: res})}
		default:
			tup := res.(Tuple)
			for i := range tup {
				outs = append(outs, th.mkRValue(&rvalue{t: sig.Results().At(i).Type(), v: tup[i]}))
			}
		}
		if outs == nil {
			return Slice{}
		}
		return Slice{a: outs}
	})
	ptrTo := func(th *Thread, fn *ssa.Function, a []Value) Value {
		return th.rtypeIface(types.NewPointer(rtypeOfValue(th, a[0])))
	}
	reg("reflect.PointerTo", ptrTo)
	reg("reflect.PtrTo", ptrTo)
	reg("reflect.StructOf", func(th *Thread, fn *ssa.Function, a []Value) Value {
		fields := a[0].(Slice).a
		p := th.st.eng.P.pkgs["reflect"]
		sft := p.Type("StructField").Type().Underlying().(*types.Struct)
		ix := map[string]int{}
		for k := 0; k < sft.NumFields(); k++ {
			ix[sft.Field(k).Name()] = k
		}
		var vars []*types.Var
		var tags []string
		for _, f := range fields {
			fs := f.(Struct)
			name, ok := fs[ix["Name"]].(*StrVal).goString()
			if !ok {
				th.st.abort("reflect.StructOf with a symbolic field name")
			}
			tag, ok := fs[ix["Tag"]].(*StrVal).goString()
			if !ok {
				th.st.abort("reflect.StructOf with a symbolic tag")
			}
			if name == "" || !token.IsExported(name) {
				th.runtimePanic("reflect", "reflect.StructOf: field %q is unexported or has no name", name)
			}
			ft := rtypeOfValue(th, fs[ix["Type"]])
			vars = append(vars, types.NewField(token.NoPos, nil, name, ft, false))
			tags = append(tags, tag)
		}
		return th.rtypeIface(types.NewStruct(vars, tags))
	})
	reg("reflect.FuncOf", func(th *Thread, fn *ssa.Function, a []Value) Value {
		mk := func(v Value) *types.Tuple {
			var vars []*types.Var
			for _, x := range v.(Slice).a {
				vars = append(vars, types.NewParam(token.NoPos, nil, "", rtypeOfValue(th, x)))
			}
			return types.NewTuple(vars...)
		}
		return th.rtypeIface(types.NewSignatureType(nil, nil, nil, mk(a[0]), mk(a[1]), a[2].(*Term).Bool()))
	})
	reg("reflect.MakeFunc", func(th *Thread, fn *ssa.Function, a []Value) Value {
		t := rtypeOfValue(th, a[0])
		sig, ok := t.Underlying().(*types.Signature)
		if !ok {
			th.runtimePanic("reflect", "reflect: call of MakeFunc with non-Func type")
		}
		impl := a[1]
		nat := &Native{name: "reflect.MakeFunc", fn: func(th *Thread, args []Value) Value {
			in := make([]Value, len(args))
			for i := range args {
				in[i] = th.mkRValue(&rvalue{t: sig.Params().At(i).Type(), v: args[i]})
			}
			var inSlice Value = Slice{a: in}
			if len(in) == 0 {
				inSlice = Slice{}
			}
			res := th.callValue(impl, []Value{inSlice}, "MakeFunc")
			outs := res.(Slice).a
			if len(outs) != sig.Results().Len() {
				th.runtimePanic("reflect", "reflect: wrong return count from function created by MakeFunc")
			}
			vals := make([]Value, len(outs))
			for i, o := range outs {
				vals[i] = th.convertForParam(th.rvalueOf(o), sig.Results().At(i).Type())
			}
			switch len(vals) {
			case 0:
				return nil
			case 1:
				return vals[0]
			}
			return Tuple(vals)
		}}
		return th.mkRValue(&rvalue{t: t, v: nat})
	})
}

// convertForParam turns a reflect.Value's content into the interpreter value a
// parameter of type pt expects (concrete value into interface: wrap).
func (th *Thread) convertForParam(rv *rvalue, pt types.Type) Value {
	if rv.t == nil {
		th.runtimePanic("reflect", "reflect: Call using zero Value argument")
	}
	_, wantIface := pt.Underlying().(*types.Interface)
	_, haveIface := rv.t.Underlying().(*types.Interface)
	switch {
	case wantIface && !haveIface:
		return Iface{t: rv.t, v: rv.v}
	case !wantIface && !haveIface && !types.AssignableTo(rv.t, pt):
		th.runtimePanic("reflect", "reflect: Call using %v as type %v", rv.t, pt)
	}
	return rv.v
}
