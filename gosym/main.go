package main

import (
	"flag"
	"fmt"
	"os"
	"strings"
)

func usage() {
	fmt.Fprintln(os.Stderr, `usage:
  gosym run   [flags] <pkgdir> <Harness>     explore one harness, print the result
  gosym check [flags] <PROPERTY>            decide a property, write evidence
  gosym replay <file>                       replay a recorded counterexample natively`)
	os.Exit(2)
}

func main() {
	if len(os.Args) < 2 {
		usage()
	}
	cmd := os.Args[1]
	fs := flag.NewFlagSet(cmd, flag.ExitOnError)
	repo := fs.String("repo", "/repo", "repository root")
	cwd, _ := os.Getwd()
	verif := fs.String("verif", cwd, "verification root (default: current directory)")
	tier := fs.String("tier", envOr("VERIF_TIER", "quick"), "quick|thorough")
	workers := fs.Int("workers", 16, "parallel workers")
	solver := fs.String("solver", "z3", "z3|z3-new|cvc5")
	preempt := fs.Int("preempt", -1, "preemption bound override")
	verbose := fs.Bool("v", false, "verbose")
	all := fs.Bool("all", false, "do not stop at the first violation")
	maxpaths := fs.Int("maxpaths", 0, "path budget override")
	delays := fs.Int("delays", -1, "delay bound override")
	nosum := fs.Bool("nosum", false, "disable callee summarisation")
	// positional arguments may come before or after the flags
	rest := os.Args[2:]
	var args []string
	for len(rest) > 0 {
		if strings.HasPrefix(rest[0], "-") {
			fs.Parse(rest)
			rest = fs.Args()
			if len(rest) > 0 && strings.HasPrefix(rest[0], "-") {
				break
			}
			continue
		}
		args = append(args, rest[0])
		rest = rest[1:]
	}
	switch cmd {
	case "run":
		if len(args) != 2 {
			usage()
		}
		P, err := loadProgram(*repo, *verif+"/harness", args[0])
		if err != nil {
			fmt.Fprintln(os.Stderr, "load:", err)
			os.Exit(2)
		}
		cfg := defaultConfig()
		cfg.Workers = *workers
		cfg.SolverKind = *solver
		if *preempt >= 0 {
			cfg.Preempt = *preempt
		}
		cfg.StopOnFirst = !*all
		cfg.Thorough = *tier == "thorough"
		cfg.Summarize = !*nosum
		if *delays >= 0 {
			cfg.Delays = *delays
		}
		if *maxpaths > 0 {
			cfg.MaxPaths = *maxpaths
		}
		eng := newEngine(P, cfg)
		pkgPath := modulePath
		if d := harnessDirs[args[0]]; d != "." && d != "" {
			pkgPath += "/" + d
		}
		res, err := eng.RunHarness(pkgPath, args[1])
		if err != nil {
			fmt.Fprintln(os.Stderr, "run:", err)
			os.Exit(2)
		}
		printResult(res, *verbose)
	case "check":
		if len(args) != 1 {
			usage()
		}
		os.Exit(runCheck(*repo, *verif, args[0], *tier, *workers, *solver))
	case "replay":
		if len(args) != 1 {
			usage()
		}
		os.Exit(runReplayFile(*repo, *verif, args[0]))
	default:
		usage()
	}
}

func envOr(k, d string) string {
	if v := os.Getenv(k); v != "" {
		return v
	}
	return d
}

func printResult(res *HarnessResult, verbose bool) {
	fmt.Printf("harness %s: paths=%d infeasible=%d obligations=%d trivial=%d violations=%d wall=%.2fs\n",
		res.Name, res.Paths, res.Infeasible, res.Obligations, res.Trivial, len(res.Violations), res.Wall.Seconds())
	fmt.Printf("  solver: sat=%d unsat=%d unknown=%d errors=%d time=%.2fs  steps=%d maxvisits=%d threads<=%d schedpoints=%d\n",
		res.Stats.Sat, res.Stats.Unsat, res.Stats.Unknown, res.Stats.Errors, res.Stats.Time.Seconds(), res.Steps, res.MaxVisits, res.MaxThreads, res.SchedPoints)
	fmt.Printf("  summarized calls=%d pruned=%d literal-cache hits=%d\n", res.Summarized, res.Pruned, res.CacheHits)
	if len(res.Reach) > 0 {
		fmt.Printf("  reach: %v\n", res.Reach)
	}
	for _, s := range sortedCounts(res.Aborts) {
		fmt.Printf("  ABORT: %s\n", s)
	}
	if res.Budget {
		fmt.Printf("  BUDGET: path budget exhausted\n")
	}
	for _, s := range sortedCounts(res.Unwinds) {
		fmt.Printf("  UNWIND: %s\n", s)
	}
	for _, s := range sortedCounts(res.Unknowns) {
		fmt.Printf("  UNKNOWN: %s\n", s)
	}
	for n := range res.Notes {
		fmt.Printf("  note: %s\n", n)
	}
	for _, v := range res.Violations {
		fmt.Printf("  VIOLATION: %s\n    model=%v\n    sched=%v trace=%v\n", v.What, v.Model, v.Sched, v.Trace)
	}
	if verbose {
		for _, s := range sortedCounts(res.ForkSites) {
			fmt.Printf("  fork: %s\n", s)
		}
		var fns []string
		for f := range res.Entered {
			fns = append(fns, f)
		}
		fmt.Printf("  entered: %s\n", strings.Join(fns, ", "))
		for _, s := range res.Samples {
			fmt.Printf("  sample: %s\n", s)
		}
	}
}
