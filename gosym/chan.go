package main

// Channels and select under the engine's cooperative scheduler.

import (
	"go/types"

	"golang.org/x/tools/go/ssa"
)

func (th *Thread) chanSend(c Value, v Value) {
	ch := c.(*ChanVal)
	th.yield("chan-send")
	if ch == nil {
		th.block(func() bool { return true }, "send on nil channel")
	}
	if ch.closed {
		th.runtimePanic("send on closed channel", "send on closed channel")
	}
	if ch.cap > 0 {
		th.block(func() bool { return !ch.closed && len(ch.buf) >= ch.cap }, "chan send (buffer full)")
		if ch.closed {
			th.runtimePanic("send on closed channel", "send on closed channel")
		}
		ch.buf = append(ch.buf, v)
		return
	}
	// unbuffered: hand over to a waiting receiver, or wait for one
	for len(ch.recvq) > 0 {
		w := ch.recvq[0]
		ch.recvq = ch.recvq[1:]
		if w.done {
			continue
		}
		w.val, w.ok, w.done = v, true, true
		return
	}
	w := &chanWaiter{th: th, val: v}
	ch.sendq = append(ch.sendq, w)
	th.block(func() bool { return !w.done && !ch.closed }, "chan send (no receiver)")
	if !w.done {
		th.runtimePanic("send on closed channel", "send on closed channel")
	}
}

func (th *Thread) chanRecv(c Value) (Value, *Term) {
	ch := c.(*ChanVal)
	th.yield("chan-recv")
	if ch == nil {
		th.block(func() bool { return true }, "receive from nil channel")
	}
	if v, ok, got := ch.tryRecv(); got {
		return v, mkBool(ok)
	}
	if ch.cap > 0 {
		th.block(func() bool { return len(ch.buf) == 0 && !ch.closed && len(ch.liveSenders()) == 0 }, "chan receive (empty)")
		v, ok, got := ch.tryRecv()
		if !got {
			th.st.abort("internal: woken receiver found nothing")
		}
		return v, mkBool(ok)
	}
	w := &chanWaiter{th: th}
	ch.recvq = append(ch.recvq, w)
	th.block(func() bool { return !w.done && !ch.closed }, "chan receive (no sender)")
	if w.done {
		return w.val, mkBool(w.ok)
	}
	w.done = true // closed while waiting
	return ch.zeroVal(), tFalse
}

func (ch *ChanVal) liveSenders() []*chanWaiter {
	var out []*chanWaiter
	for _, w := range ch.sendq {
		if !w.done {
			out = append(out, w)
		}
	}
	return out
}

func (ch *ChanVal) zeroVal() Value {
	if ch.elem != nil {
		return zero(ch.elem)
	}
	return nil
}

// tryRecv takes a value if one is available without blocking.
func (ch *ChanVal) tryRecv() (v Value, ok bool, got bool) {
	if len(ch.buf) > 0 {
		v = ch.buf[0]
		ch.buf = ch.buf[1:]
		return v, true, true
	}
	for len(ch.sendq) > 0 {
		w := ch.sendq[0]
		ch.sendq = ch.sendq[1:]
		if w.done {
			continue
		}
		w.done = true
		return w.val, true, true
	}
	if ch.closed {
		return ch.zeroVal(), false, true
	}
	return nil, false, false
}

func (ch *ChanVal) canRecv() bool {
	return ch != nil && (len(ch.buf) > 0 || len(ch.liveSenders()) > 0 || ch.closed)
}

func (ch *ChanVal) liveReceivers() int {
	n := 0
	for _, w := range ch.recvq {
		if !w.done {
			n++
		}
	}
	return n
}

func (ch *ChanVal) canSend() bool {
	if ch == nil {
		return false
	}
	if ch.closed {
		return true // will panic
	}
	if ch.cap > 0 {
		return len(ch.buf) < ch.cap
	}
	return ch.liveReceivers() > 0
}

func (th *Thread) chanClose(c Value) {
	ch := c.(*ChanVal)
	th.yield("chan-close")
	if ch == nil {
		th.runtimePanic("close of nil channel", "close of nil channel")
	}
	if ch.closed {
		th.runtimePanic("close of closed channel", "close of closed channel")
	}
	ch.closed = true
}

func (th *Thread) selectOp(fr *Frame, instr *ssa.Select) Value {
	st := th.st
	th.yield("select")
	type scase struct {
		ch   *ChanVal
		send bool
		val  Value
	}
	var cases []scase
	for _, s := range instr.States {
		c := scase{ch: fr.get(s.Chan).(*ChanVal), send: s.Dir == types.SendOnly}
		if c.send {
			c.val = fr.get(s.Send)
		}
		cases = append(cases, c)
	}
	ready := func() []int {
		var r []int
		for i, c := range cases {
			if c.send && c.ch.canSend() || !c.send && c.ch.canRecv() {
				r = append(r, i)
			}
		}
		return r
	}
	r := ready()
	if len(r) == 0 {
		if !instr.Blocking {
			return th.selectResult(instr, -1, nil, tFalse)
		}
		th.block(func() bool { return len(ready()) == 0 }, "select")
		r = ready()
	}
	pick := r[0]
	if len(r) > 1 {
		pick = r[st.choose(len(r), nil, "select")]
	}
	c := cases[pick]
	if c.send {
		if c.ch.closed {
			th.runtimePanic("send on closed channel", "send on closed channel")
		}
		if c.ch.cap > 0 {
			c.ch.buf = append(c.ch.buf, c.val)
		} else {
			for len(c.ch.recvq) > 0 {
				w := c.ch.recvq[0]
				c.ch.recvq = c.ch.recvq[1:]
				if w.done {
					continue
				}
				w.val, w.ok, w.done = c.val, true, true
				break
			}
		}
		return th.selectResult(instr, pick, nil, tFalse)
	}
	v, ok, _ := c.ch.tryRecv()
	return th.selectResult(instr, pick, map[int]Value{pick: v}, mkBool(ok))
}

func (th *Thread) selectResult(instr *ssa.Select, idx int, recv map[int]Value, ok *Term) Value {
	res := Tuple{mkInt(64, int64(idx)), ok}
	for i, s := range instr.States {
		if s.Dir == types.RecvOnly {
			if v, has := recv[i]; has && v != nil {
				res = append(res, v)
			} else {
				res = append(res, zero(s.Chan.Type().Underlying().(*types.Chan).Elem()))
			}
		}
	}
	return res
}
