package main

// strconv.ParseInt / ParseFloat and base64 decoding over symbolic bytes.
// Bytes are case-split to concrete representatives (digits only into zero /
// non-zero, because acceptance does not depend on a digit's value) and the
// real strconv function is then run on the representative string.

import (
	"encoding/base64"
	"go/types"
	"math"
	"mime"
	"sort"
	"strconv"

	"golang.org/x/tools/go/ssa"
)

// representative returns a concrete string of the same shape as s; digitsOnly
// abstraction is used when abstractDigits is set.
func (th *Thread) representative(s *StrVal, abstractDigits bool) (string, bool) {
	if s.hasToken() {
		th.st.abort("number parsing of an opaque string")
	}
	out := make([]byte, len(s.e))
	anyNZ := false
	for i, x := range s.e {
		b := x.(*Term)
		if b.IsConst() {
			out[i] = byte(b.c)
			continue
		}
		if abstractDigits {
			isDigit := mkAnd(mkCmp("bvuge", b, mkBV(8, '0')), mkCmp("bvule", b, mkBV(8, '9')))
			if th.st.branch(isDigit, "num-digit") {
				if th.st.branch(mkEq(b, mkBV(8, '0')), "num-zero") {
					out[i] = '0'
				} else {
					out[i] = '7'
					anyNZ = true
				}
				continue
			}
		}
		out[i] = byte(th.st.concretize(b, 80, "number byte"))
	}
	return string(out), anyNZ
}

// classRepresentative case-splits every symbolic byte over the given
// characters; a byte equal to none of them is represented by other.
func (th *Thread) classRepresentative(s *StrVal, chars []byte, other byte) string {
	if s.hasToken() {
		th.st.abort("number parsing of an opaque string")
	}
	out := make([]byte, len(s.e))
	for i, x := range s.e {
		b := x.(*Term)
		if b.IsConst() {
			out[i] = byte(b.c)
			continue
		}
		guards := make([]*Term, len(chars)+1)
		none := tTrue
		for k, c := range chars {
			guards[k] = mkEq(b, mkBV(8, uint64(c)))
			none = mkAnd(none, mkNot(guards[k]))
		}
		guards[len(chars)] = none
		d := th.st.choose(len(chars)+1, guards, "num-class")
		if d == len(chars) {
			out[i] = other
		} else {
			out[i] = chars[d]
		}
	}
	return string(out)
}

func registerNumParse(e *Engine) {
	reg := func(name string, f Intrinsic) { e.intrinsics[name] = f }
	reg("strconv.ParseInt", func(th *Thread, fn *ssa.Function, a []Value) Value {
		base, bits := a[1].(*Term), a[2].(*Term)
		if base.IsConst() && base.c == 10 && bits.IsConst() {
			// acceptance from a representative (digits abstracted to zero /
			// non-zero); the value itself is an opaque integer (strconv.Atoi,
			// which the framing code uses, stays exact)
			rep, _ := th.representative(a[0].(*StrVal), true)
			if _, err := strconv.ParseInt(rep, 10, int(bits.Int())); err != nil {
				if ne, ok := err.(*strconv.NumError); !ok || ne.Err != strconv.ErrRange || len(rep) < 18 {
					return Tuple{mkInt(64, 0), mkErrorValue(th, "strconv.ParseInt: "+err.Error())}
				}
			}
			v := th.st.freshVar("parseint.value", 64)
			th.st.note("strconv.ParseInt(base 10): value abstracted to an arbitrary integer")
			return Tuple{v, nilError()}
		}
		// other bases: every byte is case-split over the characters the number
		// syntax distinguishes (digits, hex letters, base prefixes, underscore,
		// signs); any other byte is represented by '?'
		rep := th.classRepresentative(a[0].(*StrVal), []byte("0123456789abcdefABCDEFxXoO_+-"), '?')
		n, err := strconv.ParseInt(rep, int(base.Int()), int(bits.Int()))
		if err != nil {
			return Tuple{mkInt(64, n), mkErrorValue(th, "strconv.ParseInt: "+err.Error())}
		}
		return Tuple{mkInt(64, n), nilError()}
	})
	reg("strconv.ParseFloat", func(th *Thread, fn *ssa.Function, a []Value) Value {
		rep, anyNZ := th.representative(a[0].(*StrVal), true)
		f, err := strconv.ParseFloat(rep, 64)
		// a range error depends on digit values the representative abstracts:
		// with an exponent of three or more digits both outcomes are possible
		expDigits := 0
		for i := 0; i < len(rep); i++ {
			if rep[i] == 'e' || rep[i] == 'E' || rep[i] == 'p' || rep[i] == 'P' {
				for j := i + 1; j < len(rep); j++ {
					if rep[j] >= '0' && rep[j] <= '9' {
						expDigits++
					}
				}
				break
			}
		}
		if err == nil && expDigits >= 3 && anyNZ {
			okv := th.st.freshVar("parsefloat.range", 8)
			if th.st.branch(mkEq(okv, mkBV(8, 1)), "float-range") {
				return Tuple{&Float{class: mkBV(8, 1)}, mkErrorValue(th, "strconv.ParseFloat: value out of range")}
			}
		}
		class := uint64(0)
		switch {
		case math.IsNaN(f):
			class = 3
		case math.IsInf(f, 1):
			class = 1
		case math.IsInf(f, -1):
			class = 2
		}
		fv := &Float{class: mkBV(8, class)}
		if err != nil {
			return Tuple{fv, mkErrorValue(th, "strconv.ParseFloat: "+err.Error())}
		}
		return Tuple{fv, nilError()}
	})
	floatClass := func(th *Thread, v Value) *Term {
		f := v.(*Float)
		if f.known {
			switch {
			case math.IsNaN(f.f):
				return mkBV(8, 3)
			case math.IsInf(f.f, 1):
				return mkBV(8, 1)
			case math.IsInf(f.f, -1):
				return mkBV(8, 2)
			}
			return mkBV(8, 0)
		}
		return f.class
	}
	reg("math.IsNaN", func(th *Thread, fn *ssa.Function, a []Value) Value { return mkEq(floatClass(th, a[0]), mkBV(8, 3)) })
	reg("math.IsInf", func(th *Thread, fn *ssa.Function, a []Value) Value {
		c := floatClass(th, a[0])
		sign := a[1].(*Term)
		pos, neg := mkEq(c, mkBV(8, 1)), mkEq(c, mkBV(8, 2))
		return mkIte(mkCmp("bvsgt", sign, mkBV(64, 0)), pos, mkIte(mkCmp("bvslt", sign, mkBV(64, 0)), neg, mkOr(pos, neg)))
	})
	reg("(*encoding/base64.Encoding).DecodeString", func(th *Thread, fn *ssa.Function, a []Value) Value {
		s := a[1].(*StrVal)
		rep, _ := th.representative(s, false)
		// RawStdEncoding is the only encoding the library uses
		dec, err := base64.RawStdEncoding.DecodeString(rep)
		if err != nil {
			return Tuple{Slice{}, mkErrorValue(th, "illegal base64 data")}
		}
		out := make([]Value, len(dec))
		for i := range out {
			out[i] = mkBV(8, uint64(dec[i]))
		}
		return Tuple{Slice{a: out}, nilError()}
	})
	reg("(*net/http.Request).ParseForm", func(th *Thread, fn *ssa.Function, a []Value) Value {
		// the harness supplies Request.Form directly; a symbolic failure models a
		// malformed query string
		if p, ok := th.st.ghost["parseform.fails"]; ok {
			if th.st.branch(p.(*Term), "parseform") {
				return mkErrorValue(th, "invalid URL escape")
			}
		}
		return nilError()
	})
	e.intrinsics["prim:verifParseFormFails"] = func(th *Thread, fn *ssa.Function, a []Value) Value {
		th.st.ghost["parseform.fails"] = a[0]
		return nil
	}
	reg("mime.ParseMediaType", func(th *Thread, fn *ssa.Function, a []Value) Value {
		v := strArg(th, a[0])
		mt, params, err := mime.ParseMediaType(v)
		m := &MapVal{}
		var keys []string
		for k := range params {
			keys = append(keys, k)
		}
		sort.Strings(keys)
		for _, k := range keys {
			m.keys = append(m.keys, concreteStr(k))
			m.vals = append(m.vals, concreteStr(params[k]))
		}
		if err != nil {
			return Tuple{concreteStr(mt), m, mkErrorValue(th, "mime: "+err.Error())}
		}
		return Tuple{concreteStr(mt), m, nilError()}
	})
	_ = types.Typ
}
