package main

// Engine-implemented functions: harness primitives and library boundaries.

import (
	"fmt"
	"go/types"
	"sort"
	"strconv"
	"strings"

	"golang.org/x/tools/go/ssa"
)

func strArg(th *Thread, v Value) string {
	s, ok := v.(*StrVal).goString()
	if !ok {
		th.st.abort("expected a constant string argument")
	}
	return s
}

func mkErrorValue(th *Thread, msg string) Value {
	// *errors.errorString{s: msg}
	p := th.st.eng.P.pkgs["errors"]
	if p == nil {
		th.st.abort("package errors not loaded")
	}
	t := p.Type("errorString").Type()
	cell := new(Value)
	*cell = Struct{concreteStr(msg)}
	return Iface{t: types.NewPointer(t), v: cell}
}

func nilError() Value { return Iface{} }

func registerIntrinsics(e *Engine) {
	reg := func(name string, f Intrinsic) { e.intrinsics[name] = f }
	prim := func(name string, f Intrinsic) { e.intrinsics["prim:"+name] = f }

	// ---- harness primitives ----
	prim("nondetInt", func(th *Thread, fn *ssa.Function, a []Value) Value { return th.st.freshVar(strArg(th, a[0]), 64) })
	prim("nondetInt64", func(th *Thread, fn *ssa.Function, a []Value) Value { return th.st.freshVar(strArg(th, a[0]), 64) })
	prim("nondetInt32", func(th *Thread, fn *ssa.Function, a []Value) Value { return th.st.freshVar(strArg(th, a[0]), 32) })
	prim("nondetByte", func(th *Thread, fn *ssa.Function, a []Value) Value { return th.st.freshVar(strArg(th, a[0]), 8) })
	prim("nondetBool", func(th *Thread, fn *ssa.Function, a []Value) Value {
		v := th.st.freshVar(strArg(th, a[0]), 8)
		th.st.solver.Assert(mkCmp("bvule", v, mkBV(8, 1)))
		return mkEq(v, mkBV(8, 1))
	})
	prim("nondetChoice", func(th *Thread, fn *ssa.Function, a []Value) Value {
		n := int(a[1].(*Term).Int())
		v := th.st.freshVar(strArg(th, a[0]), 64)
		guards := make([]*Term, n)
		for i := range guards {
			guards[i] = mkEq(v, mkBV(64, uint64(i)))
		}
		d := th.st.choose(n, guards, "choice:"+strArg(th, a[0]))
		return mkBV(64, uint64(d))
	})
	nondetBytes := func(th *Thread, a []Value) []Value {
		tag := strArg(th, a[0])
		max := int(a[1].(*Term).Int())
		lv := th.st.freshVar(tag+".len", 64)
		guards := make([]*Term, max+1)
		for i := range guards {
			guards[i] = mkEq(lv, mkBV(64, uint64(i)))
		}
		n := th.st.choose(max+1, guards, "len:"+tag)
		out := make([]Value, n)
		for i := range out {
			out[i] = th.st.freshVar(tag, 8)
		}
		return out
	}
	prim("nondetBytes", func(th *Thread, fn *ssa.Function, a []Value) Value { return Slice{a: nondetBytes(th, a)} })
	prim("nondetString", func(th *Thread, fn *ssa.Function, a []Value) Value { return &StrVal{e: nondetBytes(th, a)} })
	prim("assume", func(th *Thread, fn *ssa.Function, a []Value) Value { th.st.assume(a[0].(*Term)); return nil })
	prim("vassert", func(th *Thread, fn *ssa.Function, a []Value) Value {
		th.st.check(a[0].(*Term), strArg(th, a[1]))
		return nil
	})
	prim("reach", func(th *Thread, fn *ssa.Function, a []Value) Value { th.st.reach[strArg(th, a[0])] = true; return nil })
	prim("quiesce", func(th *Thread, fn *ssa.Function, a []Value) Value { th.quiesceWait(); return nil })
	prim("vyield", func(th *Thread, fn *ssa.Function, a []Value) Value { th.yield("harness"); return nil })
	prim("vevent", func(th *Thread, fn *ssa.Function, a []Value) Value {
		th.yield("event")
		th.st.event(th, strArg(th, a[0]))
		return nil
	})
	prim("vclock", func(th *Thread, fn *ssa.Function, a []Value) Value {
		th.st.clock++
		return mkBV(64, uint64(th.st.clock))
	})
	prim("blockedThreads", func(th *Thread, fn *ssa.Function, a []Value) Value {
		n := 0
		for _, t := range th.st.threads {
			if t != th && !t.finished {
				n++
			}
		}
		return mkBV(64, uint64(n))
	})
	prim("liveThreads", func(th *Thread, fn *ssa.Function, a []Value) Value {
		var names []string
		for _, t := range th.st.threads {
			if t != th && !t.finished {
				names = append(names, t.name+":"+t.what)
			}
		}
		return concreteStr(strings.Join(names, ";"))
	})
	prim("liveThreadsNow", func(th *Thread, fn *ssa.Function, a []Value) Value {
		site := strArg(th, a[0])
		var names []string
		for _, t := range th.st.threads {
			if t != th && !t.finished && strings.Contains(t.name, site) {
				names = append(names, t.name+":"+t.what)
			}
		}
		return concreteStr(strings.Join(names, ";"))
	})
	prim("verifRedirect", func(th *Thread, fn *ssa.Function, a []Value) Value {
		if th.st.redirects == nil {
			th.st.redirects = map[string]Value{}
		}
		th.st.redirects[strArg(th, a[0])] = a[1].(Iface).v
		return nil
	})
	prim("verifPrune", func(th *Thread, fn *ssa.Function, a []Value) Value {
		th.st.end("pruned", "%s", strArg(th, a[0]))
		return nil
	})
	prim("thorough", func(th *Thread, fn *ssa.Function, a []Value) Value { return mkBool(th.st.eng.cfg.Thorough) })
	prim("verifMapOrders", func(th *Thread, fn *ssa.Function, a []Value) Value {
		th.st.mapOrdersOff = !a[0].(*Term).Bool()
		return nil
	})
	prim("noControlBytes", func(th *Thread, fn *ssa.Function, a []Value) Value {
		r := tTrue
		for _, x := range a[0].(Slice).a {
			if b, ok := x.(*Term); ok {
				r = mkAnd(r, mkCmp("bvuge", b, mkBV(8, 0x20)))
			} else if tk, ok := x.(*Token); ok {
				r = mkAnd(r, mkNot(th.tokCtl(tk)))
			}
		}
		return r
	})
	prim("inEngine", func(th *Thread, fn *ssa.Function, a []Value) Value { return tTrue })
	prim("lockHeld", func(th *Thread, fn *ssa.Function, a []Value) Value {
		p := a[0].(*Value)
		m := th.st.mutexes[p]
		return mkBool(m != nil && m.locked && m.holder == th)
	})
	prim("lockHeldAny", func(th *Thread, fn *ssa.Function, a []Value) Value {
		p := a[0].(*Value)
		m := th.st.mutexes[p]
		return mkBool(m != nil && m.locked)
	})

	// ---- internal/bytealg, strings, bytes ----
	indexByte := func(th *Thread, e []Value, c *Term) Value {
		if hasWide(e) {
			// tokens: a JSON token never contains a raw control byte, a decimal
			// token only digits and '-'; other bytes unknown (abort inside)
			return mkInt(64, int64(th.elemIndexByte(e, c)))
		}
		for i, x := range e {
			if th.st.branch(mkEq(x.(*Term), c), "indexbyte") {
				return mkInt(64, int64(i))
			}
		}
		return mkInt(64, -1)
	}
	reg("internal/bytealg.IndexByteString", func(th *Thread, fn *ssa.Function, a []Value) Value {
		return indexByte(th, a[0].(*StrVal).e, a[1].(*Term))
	})
	reg("internal/bytealg.IndexByte", func(th *Thread, fn *ssa.Function, a []Value) Value {
		return indexByte(th, a[0].(Slice).a, a[1].(*Term))
	})
	reg("bytes.IndexByte", func(th *Thread, fn *ssa.Function, a []Value) Value {
		e := a[0].(Slice).a
		if hasWide(e) {
			// split.Send guard on an encoded message: tokens are JSON values without
			// raw control bytes; decide on the plain bytes, and for tokens only when
			// the wanted byte is a control byte
			c := a[1].(*Term)
			if c.IsConst() && c.c < 0x20 {
				var plain []Value
				for _, x := range e {
					if _, ok := x.(*Token); !ok {
						plain = append(plain, x)
					}
				}
				r := indexByte(th, plain, c).(*Term)
				if r.Int() < 0 {
					return r
				}
			}
			th.st.abort("bytes.IndexByte over opaque token")
		}
		return indexByte(th, e, a[1].(*Term))
	})
	reg("strings.IndexByte", func(th *Thread, fn *ssa.Function, a []Value) Value {
		return indexByte(th, a[0].(*StrVal).e, a[1].(*Term))
	})
	countByte := func(th *Thread, e []Value, c *Term) Value {
		n := 0
		for _, x := range e {
			if th.st.branch(mkEq(x.(*Term), c), "countbyte") {
				n++
			}
		}
		return mkInt(64, int64(n))
	}
	reg("internal/bytealg.CountString", func(th *Thread, fn *ssa.Function, a []Value) Value {
		return countByte(th, a[0].(*StrVal).e, a[1].(*Term))
	})
	reg("internal/bytealg.Count", func(th *Thread, fn *ssa.Function, a []Value) Value {
		return countByte(th, a[0].(Slice).a, a[1].(*Term))
	})
	reg("strings.ToLower", func(th *Thread, fn *ssa.Function, a []Value) Value {
		s := a[0].(*StrVal)
		if s.hasToken() {
			th.st.abort("ToLower of opaque string")
		}
		out := make([]Value, len(s.e))
		for i, x := range s.e {
			b := x.(*Term)
			if !b.IsConst() {
				th.st.assume(mkCmp("bvult", b, mkBV(8, 0x80)))
				th.st.note("strings.ToLower: symbolic bytes assumed ASCII")
			} else if b.c >= 0x80 {
				th.st.abort("ToLower of non-ASCII constant")
			}
			up := mkAnd(mkCmp("bvuge", b, mkBV(8, 'A')), mkCmp("bvule", b, mkBV(8, 'Z')))
			out[i] = mkIte(up, mkBin("bvadd", b, mkBV(8, 32)), b)
		}
		return &StrVal{e: out}
	})
	trimSpace := func(th *Thread, e []Value) []Value {
		isWS := func(x Value) bool {
			b, ok := x.(*Term)
			if !ok {
				return false // tokens carry no surrounding white space
			}
			ws := mkOr(mkOr(mkEq(b, mkBV(8, ' ')), mkEq(b, mkBV(8, '\t'))), mkOr(mkOr(mkEq(b, mkBV(8, '\n')), mkEq(b, mkBV(8, '\r'))), mkOr(mkEq(b, mkBV(8, '\v')), mkEq(b, mkBV(8, '\f')))))
			if !b.IsConst() {
				// U+0085 and U+00A0 are multi-byte in UTF-8; bytes >= 0x80 are not space by themselves
			}
			return th.st.branch(ws, "trimspace")
		}
		lo, hi := 0, len(e)
		for lo < hi && isWS(e[lo]) {
			lo++
		}
		for hi > lo && isWS(e[hi-1]) {
			hi--
		}
		return e[lo:hi]
	}
	reg("bytes.TrimSpace", func(th *Thread, fn *ssa.Function, a []Value) Value {
		s := a[0].(Slice)
		r := trimSpace(th, s.a)
		if len(r) == 0 {
			return Slice{}
		}
		return Slice{a: r}
	})
	reg("strings.TrimSpace", func(th *Thread, fn *ssa.Function, a []Value) Value {
		return &StrVal{e: trimSpace(th, a[0].(*StrVal).e)}
	})

	// ---- strconv ----
	itoa := func(th *Thread, n *Term) Value {
		if n.IsConst() {
			return concreteStr(strconv.FormatInt(n.Int(), 10))
		}
		tk := &Token{ns: mkBV(64, nsItoa), v: n, kind: kNumber, errv: n}
		st := th.st
		st.solver.Assert(mkCmp("bvuge", th.tokLen(tk), mkBV(64, 1)))
		neg := mkCmp("bvslt", n, mkBV(64, 0))
		b0 := th.tokByte(tk, 0)
		st.solver.Assert(mkIte(neg, mkEq(b0, mkBV(8, '-')), mkAnd(mkCmp("bvuge", b0, mkBV(8, '0')), mkCmp("bvule", b0, mkBV(8, '9')))))
		st.solver.Assert(mkCmp("bvule", th.tokLen(tk), mkBV(64, 20)))
		return &StrVal{e: []Value{tk}}
	}
	reg("strconv.Itoa", func(th *Thread, fn *ssa.Function, a []Value) Value { return itoa(th, a[0].(*Term)) })
	reg("strconv.FormatInt", func(th *Thread, fn *ssa.Function, a []Value) Value {
		if b := a[1].(*Term); !b.IsConst() || b.c != 10 {
			th.st.abort("FormatInt with base != 10")
		}
		return itoa(th, a[0].(*Term))
	})
	reg("strconv.Atoi", func(th *Thread, fn *ssa.Function, a []Value) Value { return atoi(th, a[0].(*StrVal)) })
	prim("nondetDecimal", func(th *Thread, fn *ssa.Function, a []Value) Value {
		n := th.st.freshVar(strArg(th, a[0]), 64)
		return itoa(th, n)
	})

	// ---- errors / fmt ----
	reg("errors.Is", func(th *Thread, fn *ssa.Function, a []Value) Value { return mkBool(th.errorsIs(a[0].(Iface), a[1].(Iface))) })
	reg("errors.As", func(th *Thread, fn *ssa.Function, a []Value) Value { return mkBool(th.errorsAs(a[0].(Iface), a[1].(Iface))) })
	reg("fmt.Sprintf", func(th *Thread, fn *ssa.Function, a []Value) Value { return th.sprintf(a[0].(*StrVal), a[1].(Slice)) })
	reg("fmt.Sprint", func(th *Thread, fn *ssa.Function, a []Value) Value { return concreteStr("<fmt.Sprint>") })
	reg("fmt.Errorf", func(th *Thread, fn *ssa.Function, a []Value) Value { return th.errorf(a[0].(*StrVal), a[1].(Slice)) })
	reg("fmt.Fprintln", func(th *Thread, fn *ssa.Function, a []Value) Value {
		return th.fprint(a[0].(Iface), a[1].(Slice), true)
	})
	reg("fmt.Fprintf", func(th *Thread, fn *ssa.Function, a []Value) Value {
		return Tuple{mkBV(64, 0), nilError()}
	})
	for _, n := range []string{"log.Printf", "log.Println", "log.Print", "(*log.Logger).Printf", "(*log.Logger).Output", "log.Output"} {
		reg(n, func(th *Thread, fn *ssa.Function, a []Value) Value {
			if fn.Signature.Results().Len() == 1 {
				return nilError()
			}
			return nil
		})
	}

	// ---- expvar / time / runtime ----
	for _, n := range []string{"(*expvar.Int).Add", "(*expvar.Int).Set", "(*expvar.Map).Set", "(*expvar.Map).Do", "(*expvar.Map).Add", "(*expvar.Map).Init"} {
		nn := n
		reg(nn, func(th *Thread, fn *ssa.Function, a []Value) Value {
			if strings.HasSuffix(nn, ".Init") {
				return a[0]
			}
			return nil
		})
	}
	reg("(*expvar.Int).Value", func(th *Thread, fn *ssa.Function, a []Value) Value { return mkBV(64, 0) })
	reg("time.Now", func(th *Thread, fn *ssa.Function, a []Value) Value {
		// an arbitrary non-zero instant: wall=0, ext=symbolic non-zero seconds, loc=nil
		ext := th.st.freshVar("time.now", 64)
		th.st.solver.Assert(mkCmp("bvsgt", ext, mkBV(64, 0)))
		th.st.solver.Assert(mkCmp("bvslt", ext, mkBV(64, 1<<40)))
		return Struct{mkBV(64, 0), ext, (*Value)(nil)}
	})
	reg("(time.Time).In", func(th *Thread, fn *ssa.Function, a []Value) Value { return a[0] })
	reg("(time.Time).UTC", func(th *Thread, fn *ssa.Function, a []Value) Value { return a[0] })
	reg("time.Since", func(th *Thread, fn *ssa.Function, a []Value) Value {
		d := th.st.freshVar("time.since", 64)
		th.st.solver.Assert(mkCmp("bvsge", d, mkBV(64, 0)))
		return d
	})
	reg("runtime.NumCPU", func(th *Thread, fn *ssa.Function, a []Value) Value {
		if v, ok := th.st.ghost["numcpu"]; ok {
			return v
		}
		n := th.st.freshVar("numcpu", 64)
		th.st.ghost["numcpu"] = n
		th.st.solver.Assert(mkCmp("bvsge", n, mkBV(64, 1)))
		th.st.solver.Assert(mkCmp("bvsle", n, mkBV(64, 1024)))
		return n
	})

	// ---- sort ----
	reg("sort.Strings", func(th *Thread, fn *ssa.Function, a []Value) Value {
		s := a[0].(Slice).a
		// insertion sort with symbolic comparisons (forks on undecided order)
		for i := 1; i < len(s); i++ {
			for j := i; j > 0; j-- {
				lt := th.strCompareLess(s[j].(*StrVal), s[j-1].(*StrVal))
				if !th.st.branch(lt, "sort") {
					break
				}
				s[j], s[j-1] = s[j-1], s[j]
			}
		}
		return nil
	})

	registerStrings(e)
	registerAtomic(e)
	registerReflect(e)
	registerNumParse(e)
	registerSync(e)
	registerContext(e)
	registerJSON(e)
	registerBuffer(e)
	registerMisc(e)
	_ = fmt.Sprint
	_ = sort.Strings
}

func (th *Thread) strCompareLess(x, y *StrVal) *Term {
	a, ok1 := x.goString()
	b, ok2 := y.goString()
	if ok1 && ok2 {
		return mkBool(a < b)
	}
	return th.lexLess(x, y, 0)
}

// atoi implements strconv.Atoi exactly for plain byte strings of up to 18
// digits, and as the inverse of Itoa for integer tokens.
func atoi(th *Thread, s *StrVal) Value {
	st := th.st
	fail := func() Value {
		return Tuple{mkBV(64, 0), mkErrorValue(th, "strconv.Atoi: parsing: invalid syntax")}
	}
	if len(s.e) == 1 {
		if tk, ok := s.e[0].(*Token); ok {
			if tk.errv != nil {
				return Tuple{tk.errv, nilError()}
			}
			st.abort("Atoi of a non-integer opaque token")
		}
	}
	if s.hasToken() {
		st.abort("Atoi of mixed opaque string")
	}
	e := s.e
	if len(e) == 0 {
		return fail()
	}
	neg := tFalse
	b0 := e[0].(*Term)
	if st.branch(mkOr(mkEq(b0, mkBV(8, '+')), mkEq(b0, mkBV(8, '-'))), "atoi-sign") {
		neg = mkEq(b0, mkBV(8, '-'))
		e = e[1:]
		if len(e) == 0 {
			return fail()
		}
	}
	if len(e) > 18 {
		st.abort("Atoi of more than 18 digits not modelled exactly")
	}
	val := mkBV(64, 0)
	for _, x := range e {
		b := x.(*Term)
		isDigit := mkAnd(mkCmp("bvuge", b, mkBV(8, '0')), mkCmp("bvule", b, mkBV(8, '9')))
		if !st.branch(isDigit, "atoi-digit") {
			return fail()
		}
		d := mkZext(mkBin("bvsub", b, mkBV(8, '0')), 64)
		// val*10 as shift-add (cheaper for the bit-blaster than bvmul)
		ten := mkBin("bvadd", mkBin("bvshl", val, mkBV(64, 3)), mkBin("bvshl", val, mkBV(64, 1)))
		val = mkBin("bvadd", ten, d)
	}
	return Tuple{mkIte(neg, mkNeg(val), val), nilError()}
}

// sprintf renders the format with constant arguments where possible; symbolic
// arguments appear as opaque placeholders.  Message texts are not part of any
// property, so this is a stub ("formatting gets an empty body").
func (th *Thread) sprintf(format *StrVal, args Slice) Value {
	f, ok := format.goString()
	if !ok {
		return concreteStr("<fmt>")
	}
	// special case used by jhttp.marshalError: the result must stay JSON text
	if strings.HasPrefix(f, `{"jsonrpc":"2.0","id":%s,"error":%s}`) && len(args.a) == 2 {
		var e []Value
		e = append(e, concreteStr(`{"jsonrpc":"2.0","id":`).e...)
		e = append(e, th.anyToBytes(args.a[0])...)
		e = append(e, concreteStr(`,"error":`).e...)
		e = append(e, th.anyToBytes(args.a[1])...)
		e = append(e, concreteStr(`}`).e...)
		return &StrVal{e: e}
	}
	if f == `json:"%s,omitempty"` && len(args.a) == 1 {
		var e []Value
		e = append(e, concreteStr(`json:"`).e...)
		e = append(e, th.anyToBytes(args.a[0])...)
		e = append(e, concreteStr(`,omitempty"`).e...)
		return &StrVal{e: e}
	}
	if f == "P_%d" && len(args.a) == 1 {
		if iv, ok := args.a[0].(Iface); ok {
			if t, ok := iv.v.(*Term); ok && t.IsConst() {
				return concreteStr(fmt.Sprintf("P_%d", t.Int()))
			}
		}
	}
	return concreteStr("<fmt:" + f + ">")
}

func (th *Thread) anyToBytes(v Value) []Value {
	if iv, ok := v.(Iface); ok {
		switch x := iv.v.(type) {
		case *StrVal:
			return x.e
		case Slice:
			return x.a
		}
	}
	th.st.abort("unsupported %%s argument %T", v)
	return nil
}

func (th *Thread) errorf(format *StrVal, args Slice) Value {
	f, _ := format.goString()
	// several %w verbs: *fmt.wrapErrors{msg, errs}
	if strings.Count(f, "%w") >= 2 {
		var errs []Value
		idx := 0
		for i := 0; i+1 < len(f); i++ {
			if f[i] != '%' {
				continue
			}
			if f[i+1] == '%' {
				i++
				continue
			}
			if f[i+1] == 'w' && idx < len(args.a) {
				if inner, ok := args.a[idx].(Iface); ok && inner.t != nil {
					errs = append(errs, inner)
				}
			}
			idx++
		}
		p := th.st.eng.P.pkgs["fmt"]
		t := p.Type("wrapErrors").Type()
		cell := new(Value)
		*cell = Struct{concreteStr("<fmt:" + f + ">"), Slice{a: errs}}
		return Iface{t: types.NewPointer(t), v: cell}
	}
	// %w: keep the wrapped error reachable through Unwrap
	if strings.Contains(f, "%w") {
		// find the argument matching the %w verb (count verbs before it)
		idx := 0
		for i := 0; i+1 < len(f); i++ {
			if f[i] == '%' {
				if f[i+1] == '%' {
					i++
					continue
				}
				if f[i+1] == 'w' {
					break
				}
				idx++
			}
		}
		if idx < len(args.a) {
			if inner, ok := args.a[idx].(Iface); ok && inner.t != nil {
				p := th.st.eng.P.pkgs["fmt"]
				t := p.Type("wrapError").Type()
				cell := new(Value)
				*cell = Struct{concreteStr("<fmt:" + f + ">"), inner}
				return Iface{t: types.NewPointer(t), v: cell}
			}
		}
	}
	return mkErrorValue(th, "<fmt:"+f+">")
}

func (th *Thread) fprint(w Iface, args Slice, nl bool) Value {
	// write an opaque line to the writer through its Write method
	m := th.st.eng.P.prog.LookupMethod(w.t, nil, "Write")
	if nat := th.invokeNativeByName(w, "Write"); nat != nil {
		return nat.fn(th, []Value{w.v, Slice{a: concreteStr("<fmt.Fprintln>\n").e}})
	}
	if m == nil {
		th.st.abort("Fprintln: writer %v has no Write", w.t)
	}
	return th.callFn(m, []Value{w.v, Slice{a: concreteStr("<fmt.Fprintln>\n").e}}, nil)
}
