package main

// Speculative summarisation of pure callees ("summarise pure callees"): a call
// whose result is a scalar is executed on all its internal paths without
// forking the global path; the results are merged into one if-then-else term.
// Anything with a side effect makes the attempt fail and the call is then
// executed normally (forking).

import (
	"go/types"
	"sort"
	"sync"

	"golang.org/x/tools/go/ssa"
)

type specFail struct{ why string }
type specInfeasible struct{}

type specStep struct {
	guards []*Term
	d      int
}

type specState struct {
	prefix []int
	decis  []int
	forks  [][]int
	cond   *Term
	steps  int
	fresh  map[*Value]bool
	trace  []specStep
}

type specOutcome struct {
	trace []specStep
	cond  *Term
	val   Value
	panic bool
}

// buildSpecTree merges outcomes into one value following the decision tree, so
// that the result is linear in the number of forks (not paths x depth).
func buildSpecTree(outs []*specOutcome, depth int) (Value, bool) {
	if len(outs) == 0 {
		return nil, false
	}
	if len(outs) == 1 && len(outs[0].trace) <= depth {
		return outs[0].val, true
	}
	// all outcomes share the step at this depth
	step := outs[0].trace[depth]
	groups := map[int][]*specOutcome{}
	var order []int
	for _, o := range outs {
		if len(o.trace) <= depth {
			return nil, false
		}
		d := o.trace[depth].d
		if _, ok := groups[d]; !ok {
			order = append(order, d)
		}
		groups[d] = append(groups[d], o)
	}
	sort.Ints(order)
	var res Value
	for i := len(order) - 1; i >= 0; i-- {
		d := order[i]
		sub, ok := buildSpecTree(groups[d], depth+1)
		if !ok {
			return nil, false
		}
		if res == nil {
			res = sub
			continue
		}
		m, ok := mergeValues(step.guards[d], sub, res)
		if !ok {
			return nil, false
		}
		res = m
	}
	return res, true
}

var specFailed sync.Map // *ssa.Function -> reason

const (
	specMaxPaths = 256
	specMaxSteps = 40000
)

// pureIntrinsics may run in speculation mode.
var pureIntrinsics = map[string]bool{
	"prim:tokKind": true, "prim:tokSame": true, "prim:tokMember": true, "prim:tokMembers": true, "prim:tokStringValue": true,
	"prim:tokIntValue": true, "prim:tokElems": true, "prim:noControlBytes": true, "prim:thorough": true, "prim:inEngine": true,
	"prim:lockHeld": true, "prim:lockHeldAny": true, "prim:ctxCancelled": true,
	"bytes.TrimSpace": true, "strings.TrimSpace": true, "strings.HasPrefix": true, "strings.TrimRight": true, "strings.TrimLeft": true,
	"strings.Trim": true, "strings.SplitN": true, "strings.Cut": true, "strings.ToLower": true, "strings.IndexByte": true, "bytes.IndexByte": true,
	"internal/bytealg.IndexByteString": true, "internal/bytealg.IndexByte": true, "internal/bytealg.CountString": true,
	"internal/bytealg.Count": true, "strings.LastIndex": true, "errors.Is": true,
}

func (st *State) specDeny(why string) {
	if st.spec != nil {
		panic(specFail{why})
	}
}

// summarizable: is the call worth an attempt?
func (th *Thread) summarizable(fn *ssa.Function) bool {
	if fn.Blocks == nil || len(fn.Blocks) < 2 {
		return false // nothing to merge
	}
	res := fn.Signature.Results()
	if res.Len() == 0 {
		return false
	}
	for i := 0; i < res.Len(); i++ {
		if !mergeableType(res.At(i).Type()) {
			return false
		}
	}
	if _, bad := specFailed.Load(fn); bad {
		return false
	}
	return true
}

func mergeableType(t types.Type) bool {
	switch u := t.Underlying().(type) {
	case *types.Basic:
		return u.Info()&(types.IsBoolean|types.IsInteger) != 0
	}
	return false
}

// trySummarize runs fn speculatively; ok=false means "execute normally".
func (th *Thread) trySummarize(fn *ssa.Function, args []Value, env []Value) (Value, bool) {
	st := th.st
	if st.spec != nil {
		return nil, false // already speculating: nested calls are simply inlined
	}
	var outs []*specOutcome
	queue := [][]int{{}}
	paths := 0
	savedDepth, savedStack := th.depth, th.stack
	restore := func() {
		st.spec = nil
		th.depth, th.stack = savedDepth, savedStack
	}
	for len(queue) > 0 {
		p := queue[len(queue)-1]
		queue = queue[:len(queue)-1]
		paths++
		if paths > specMaxPaths {
			restore()
			specFailed.Store(fn, "too many paths")
			return nil, false
		}
		sp := &specState{prefix: p, cond: tTrue, fresh: map[*Value]bool{}}
		st.spec = sp
		var val Value
		kind := 0 // 0 ok, 1 panic, 2 fail, 3 infeasible
		why := ""
		func() {
			defer func() {
				r := recover()
				if r == nil {
					return
				}
				switch x := r.(type) {
				case specFail:
					kind, why = 2, x.why
				case specInfeasible:
					kind = 3
				case goPanic:
					kind = 1
				case pathEnd:
					kind, why = 2, "path end: "+x.kind
				default:
					panic(r)
				}
			}()
			val = th.callFn(fn, args, env)
		}()
		restore()
		switch kind {
		case 2:
			specFailed.Store(fn, why)
			return nil, false
		case 3:
			continue
		}
		queue = append(queue, sp.forks...)
		outs = append(outs, &specOutcome{trace: sp.trace, cond: sp.cond, val: val, panic: kind == 1})
	}
	// panicking outcomes must be infeasible on the current path
	pc := tFalse
	var vals []*specOutcome
	for _, o := range outs {
		if o.panic {
			pc = mkOr(pc, o.cond)
		} else {
			vals = append(vals, o)
		}
	}
	if !(pc.IsConst() && !pc.Bool()) {
		d := st.recordDecision(func() int {
			res, _ := st.solver.Check(pc, nil)
			if res != Unsat {
				return 1
			}
			return 0
		})
		if d != 0 {
			return nil, false
		}
	}
	if len(vals) == 0 {
		return nil, false
	}
	// merge along the decision tree (panicking leaves are infeasible: dropped)
	merged, ok := buildSpecTree(vals, 0)
	if !ok {
		specFailed.Store(fn, "unmergeable results")
		return nil, false
	}
	st.entered[fn.String()] = true
	st.summarized++
	return merged, true
}

func mergeValues(c *Term, a, b Value) (Value, bool) {
	switch x := a.(type) {
	case *Term:
		y, ok := b.(*Term)
		if !ok || x.sort != y.sort {
			return nil, false
		}
		return mkIte(c, x, y), true
	case Tuple:
		y, ok := b.(Tuple)
		if !ok || len(x) != len(y) {
			return nil, false
		}
		out := make(Tuple, len(x))
		for i := range x {
			m, ok := mergeValues(c, x[i], y[i])
			if !ok {
				return nil, false
			}
			out[i] = m
		}
		return out, true
	}
	return nil, false
}

// specChoose is choose() in speculation mode: no solver, local decisions.
func (st *State) specChoose(n int, guards []*Term, what string) int {
	sp := st.spec
	sp.steps++
	pos := len(sp.decis)
	var d int
	if pos < len(sp.prefix) {
		d = sp.prefix[pos]
	} else {
		var feas []int
		for i := 0; i < n; i++ {
			if guards != nil && guards[i] != nil && guards[i].IsConst() && !guards[i].Bool() {
				continue
			}
			feas = append(feas, i)
		}
		if len(feas) == 0 {
			panic(specInfeasible{})
		}
		for _, alt := range feas[1:] {
			sp.forks = append(sp.forks, append(append([]int{}, sp.decis...), alt))
		}
		d = feas[0]
	}
	sp.decis = append(sp.decis, d)
	if guards == nil {
		panic(specFail{"unguarded choice " + what})
	}
	for _, g := range guards {
		if g == nil {
			panic(specFail{"unguarded alternative " + what})
		}
	}
	sp.cond = mkAnd(sp.cond, guards[d])
	sp.trace = append(sp.trace, specStep{guards: guards, d: d})
	return d
}
