package main

// Opaque JSON tokens inside byte sequences ("ropes").

import (
	"strconv"
	"fmt"
)

const kInvalid = 7 // a text that is not valid JSON

const (
	nsFree = 0 // harness-created free tokens
	nsItoa = 1 // decimal rendering of an integer (v = the integer)
	nsStr  = 2 // JSON string with engine-known content (v = content id)
	nsObj  = 3 // engine-built composite (v = sequence number)
	nsLit  = 4 // literal text known to the engine (v = intern id)
)

func (th *Thread) tokAttr(name string, s Sort, tk *Token) *Term {
	return mkUF(name, s, tk.ns, tk.v)
}

// Engine-built tokens (known kind / literal text) have constant attributes and
// need no solver facts; only free and integer tokens use the uninterpreted
// attribute functions.
func (th *Thread) tokLen(tk *Token) *Term {
	if tk.lit != "" {
		return mkBV(64, uint64(len(tk.lit)))
	}
	if tk.engine {
		// unknown length in [2, 2^30+1]: no assertion needed
		return mkBin("bvadd", mkBin("bvand", th.tokAttr("tk_len", 64, tk), mkBV(64, 1<<30-1)), mkBV(64, 2))
	}
	if tk.compact {
		// compaction never lengthens and keeps at least one byte
		l := th.tokAttr("tk_len", 64, tk)
		c := th.tokAttr("tk_clen", 64, tk)
		return mkIte(mkAnd(mkCmp("bvule", c, l), mkCmp("bvuge", c, mkBV(64, 1))), c, l)
	}
	return th.tokAttr("tk_len", 64, tk)
}

// tokCtl: may the token's text contain raw control bytes / inner white space
// (pretty-printed pre-encoded JSON)?  Never for compacted or engine-built ones.
func (th *Thread) tokCtl(tk *Token) *Term {
	if tk.engine || tk.compact || tk.errv != nil || tk.lit != "" {
		return tFalse
	}
	return mkNot(mkEq(th.tokAttr("tk_ctl", 8, tk), mkBV(8, 0)))
}

// compactToken returns the compacted form of a token (same value identity).
func (th *Thread) compactToken(tk *Token) *Token {
	if tk.compact || tk.errv != nil || tk.lit != "" {
		return tk
	}
	if tk.engine {
		if tk.obj == nil && tk.arr == nil {
			return tk
		}
		c := *tk
		c.obj = nil
		for _, m := range tk.obj {
			c.obj = append(c.obj, TokMem{key: m.key, val: th.compactToken(m.val)})
		}
		if tk.arr != nil {
			c.arr = []*Token{}
			for _, e := range tk.arr {
				c.arr = append(c.arr, th.compactToken(e))
			}
		}
		return &c
	}
	c := *tk
	c.compact = true
	return &c
}

func (th *Thread) tokKind(tk *Token) *Term {
	if tk.kind >= 0 {
		return mkBV(8, uint64(tk.kind))
	}
	return th.tokAttr("tk_kind", 8, tk)
}

func (th *Thread) tokByte(tk *Token, i int) *Term {
	if tk.lit != "" && i < len(tk.lit) {
		return mkBV(8, uint64(tk.lit[i]))
	}
	if tk.compact && i > 0 {
		// scalars have no inner white space: compaction leaves them unchanged
		k := th.tokKind(tk)
		scalar := mkCmp("bvule", k, mkBV(8, kString))
		return mkIte(scalar, th.tokAttr(fmt.Sprintf("tk_b%d", i), 8, tk), th.tokAttr(fmt.Sprintf("tk_cb%d", i), 8, tk))
	}
	if tk.engine && i == 0 {
		switch tk.kind {
		case kString:
			return mkBV(8, '"')
		case kArray:
			return mkBV(8, '[')
		case kObject:
			return mkBV(8, '{')
		}
	}
	return th.tokAttr(fmt.Sprintf("tk_b%d", i), 8, tk)
}

// tokWF asserts the well-formedness facts the JSON grammar guarantees for a
// token identity.
func (th *Thread) tokWF(tk *Token) {
	k := th.tokKind(tk)
	l := th.tokLen(tk)
	b0, b1, b2, b3 := th.tokByte(tk, 0), th.tokByte(tk, 1), th.tokByte(tk, 2), th.tokByte(tk, 3)
	c := func(ch byte) *Term { return mkBV(8, uint64(ch)) }
	isK := func(n int) *Term { return mkEq(k, mkBV(8, uint64(n))) }
	lenIs := func(n int) *Term { return mkEq(l, mkBV(64, uint64(n))) }
	four := func(s string) *Term {
		return mkAndN(mkEq(b0, c(s[0])), mkEq(b1, c(s[1])), mkEq(b2, c(s[2])), mkEq(b3, c(s[3])))
	}
	notWS := func(b *Term) *Term {
		return mkAndN(mkNot(mkEq(b, c(' '))), mkNot(mkEq(b, c('\t'))), mkNot(mkEq(b, c('\n'))), mkNot(mkEq(b, c('\r'))))
	}
	digit := mkAnd(mkCmp("bvuge", b0, c('0')), mkCmp("bvule", b0, c('9')))
	wf := mkAndN(
		mkCmp("bvule", k, mkBV(8, kInvalid)),
		mkCmp("bvuge", l, mkBV(64, 1)),
		mkCmp("bvule", l, mkBV(64, 1<<30)),
		mkImplies(isK(kNull), mkAnd(lenIs(4), four("null"))),
		mkImplies(mkAnd(lenIs(4), four("null")), isK(kNull)),
		mkImplies(isK(kTrue), mkAnd(lenIs(4), four("true"))),
		mkImplies(isK(kFalse), mkAnd(lenIs(5), four("fals"))),
		mkImplies(isK(kNumber), mkOr(digit, mkEq(b0, c('-')))),
		mkImplies(isK(kString), mkAnd(mkEq(b0, c('"')), mkCmp("bvuge", l, mkBV(64, 2)))),
		mkImplies(isK(kArray), mkAnd(mkEq(b0, c('[')), mkCmp("bvuge", l, mkBV(64, 2)))),
		mkImplies(isK(kObject), mkAnd(mkEq(b0, c('{')), mkCmp("bvuge", l, mkBV(64, 2)))),
		// valid JSON values carry no surrounding white space and no raw control bytes
		mkImplies(mkNot(isK(kInvalid)), mkAnd(notWS(b0), mkCmp("bvuge", b0, c(0x20)))),
		// only arrays and objects (and invalid text) can contain inner white space
		mkImplies(mkCmp("bvule", k, mkBV(8, kString)), mkEq(th.tokAttr("tk_ctl", 8, tk), mkBV(8, 0))),
	)
	th.st.solver.Assert(wf)
}

// newFreeToken creates a harness token with a fresh symbolic identity.
func (th *Thread) newFreeToken(tag string) *Token {
	v := th.st.freshVar(tag, 64)
	tk := &Token{ns: mkBV(64, nsFree), v: v, kind: -1}
	th.tokWF(tk)
	// the kind is reported in models under <tag>.kind (needed to replay)
	th.st.nondets = append(th.st.nondets, nondetRec{tag: tag + ".kind", term: mkZext(th.tokKind(tk), 64)})
	th.st.nondets = append(th.st.nondets, nondetRec{tag: tag + ".ctl", term: mkZext(th.tokAttr("tk_ctl", 8, tk), 64)})
	// length and leading bytes, so that a replay can build a text with the
	// same attributes (e.g. an id that collides with a concrete "1")
	th.st.nondets = append(th.st.nondets, nondetRec{tag: tag + ".len", term: th.tokAttr("tk_len", 64, tk)})
	for i := 0; i < 4; i++ {
		th.st.nondets = append(th.st.nondets, nondetRec{tag: tag + ".b", term: mkZext(th.tokAttr(fmt.Sprintf("tk_b%d", i), 8, tk), 64)})
	}
	return tk
}

func (th *Thread) newEngineToken(kind int) *Token {
	th.st.tokSeq++
	tk := &Token{ns: mkBV(64, nsObj), v: mkBV(64, uint64(th.st.tokSeq)), kind: kind, engine: true}
	if kind == kNumber {
		// a number of unknown text: first byte is a digit or '-'
		b0 := th.tokAttr("tk_b0", 8, tk)
		th.st.solver.Assert(mkOr(mkEq(b0, mkBV(8, '-')), mkAnd(mkCmp("bvuge", b0, mkBV(8, '0')), mkCmp("bvule", b0, mkBV(8, '9')))))
	}
	return tk
}

func (st *State) intern(s string) uint64 {
	if id, ok := st.strIntern[s]; ok {
		return id
	}
	id := uint64(len(st.strIntern) + 1)
	st.strIntern[s] = id
	return id
}

// tokEq: equality of the texts of two tokens.
func (th *Thread) tokEq(a, b *Token) *Term {
	if a == b {
		return tTrue
	}
	if a.str != nil && b.str != nil {
		return th.strEq(a.str, b.str)
	}
	if (a.str != nil) != (b.str != nil) {
		// engine-known string content vs anything else: modelled as different
		// unless the other is a free token (then undecided -> identity compare)
		th.st.note("string token with known content compared with an opaque token: treated as unequal")
		return tFalse
	}
	return mkAnd(mkEq(a.ns, b.ns), mkEq(a.v, b.v))
}

// ropeEq compares two byte sequences that may contain tokens.
func (th *Thread) ropeEq(x, y []Value) *Term {
	st := th.st
	// identical shapes: element-wise
	if len(x) == len(y) {
		same := true
		for i := range x {
			_, tx := x[i].(*Token)
			_, ty := y[i].(*Token)
			if tx != ty {
				same = false
				break
			}
		}
		if same {
			r := tTrue
			for i := range x {
				if tx, ok := x[i].(*Token); ok {
					r = mkAnd(r, th.tokEq(tx, y[i].(*Token)))
				} else {
					r = mkAnd(r, mkEq(x[i].(*Term), y[i].(*Term)))
				}
			}
			return r
		}
	}
	// one side is a single token, the other only plain bytes
	if len(x) == 1 && !hasWide(y) {
		if tk, ok := x[0].(*Token); ok {
			return th.tokEqBytes(tk, y)
		}
	}
	if len(y) == 1 && !hasWide(x) {
		if tk, ok := y[0].(*Token); ok {
			return th.tokEqBytes(tk, x)
		}
	}
	if len(x) == 0 || len(y) == 0 {
		// a rope with a token is never empty
		return tFalse
	}
	st.abort("comparison of differently shaped opaque byte sequences")
	return nil
}

func (th *Thread) tokEqBytes(tk *Token, lit []Value) *Term {
	n := len(lit)
	if n == 0 {
		return tFalse
	}
	if tk.lit != "" {
		if len(tk.lit) != n {
			return tFalse
		}
		r := tTrue
		for i := 0; i < n; i++ {
			r = mkAnd(r, mkEq(mkBV(8, uint64(tk.lit[i])), lit[i].(*Term)))
		}
		return r
	}
	if tk.errv != nil && tk.ns.IsConst() && tk.ns.c == nsItoa {
		// the decimal text of an integer: equal to a concrete text iff that
		// text is the canonical decimal spelling of the integer's value
		if s, ok := (&StrVal{e: lit}).goString(); ok {
			v, err := strconv.ParseInt(s, 10, 64)
			if err != nil || strconv.FormatInt(v, 10) != s {
				return tFalse
			}
			return mkEq(tk.errv, mkBV(64, uint64(v)))
		}
	}
	r := mkEq(th.tokLen(tk), mkBV(64, uint64(n)))
	for i := 0; i < n && i < 4; i++ {
		r = mkAnd(r, mkEq(th.tokByte(tk, i), lit[i].(*Term)))
	}
	if n > 4 {
		s, ok := (&StrVal{e: lit}).goString()
		if !ok {
			th.st.abort("comparison of an opaque token with symbolic bytes longer than 4")
		}
		r = mkAnd(r, mkEq(mkUF("tk_str", 64, tk.ns, tk.v), mkBV(64, th.st.intern(s))))
	}
	return r
}

// ropeIndex returns byte i of a sequence with tokens (only within the leading
// plain bytes or the first four bytes of the first token).
func (th *Thread) ropeIndex(e []Value, idx *Term) Value {
	i := th.concreteIndex(idx, "rope index")
	if i < 0 {
		th.runtimePanic("index out of range", "index out of range [%d]", i)
	}
	// bounds check against the symbolic length (every element is at least one byte)
	if i >= len(e) {
		ln := th.lenOf(e)
		if th.st.branch(mkCmp("bvuge", mkBV(64, uint64(i)), ln), "rope-index-range") {
			th.runtimePanic("index out of range", "index out of range [%d]", i)
		}
	}
	p := 0
	for _, x := range e {
		if tk, ok := x.(*Token); ok {
			off := i - p
			if off < 4 {
				return th.tokByte(tk, off)
			}
			th.st.abort("index %d reaches beyond the fourth byte of an opaque token", i)
		}
		if p == i {
			return x
		}
		p++
	}
	th.st.abort("rope index out of modelled range")
	return nil
}

func (th *Thread) ropeIndexAddr(a []Value, i int) Value {
	// reads only: produce a temporary cell holding the byte
	v := th.ropeIndex(a, mkBV(64, uint64(i)))
	p := new(Value)
	*p = v
	return p
}

func (th *Thread) ropeSlice(a []Value, l, h int) []Value {
	// allowed when every element before position h (in a) is a plain byte
	for i := 0; i < h && i < len(a); i++ {
		if _, ok := a[i].(*Token); ok {
			th.st.abort("slicing through an opaque token")
		}
	}
	return a[l:h]
}

// ---- a small JSON reader over ropes -------------------------------------------

// ropeParser parses JSON text made of constant bytes and opaque tokens, as the
// library's hand-written encoders produce it.
type ropeParser struct {
	th  *Thread
	e   []Value
	pos int
	err bool
}

func (p *ropeParser) peekByte() (byte, bool) {
	if p.pos >= len(p.e) {
		return 0, false
	}
	t, ok := p.e[p.pos].(*Term)
	if !ok {
		return 0, false
	}
	if !t.IsConst() {
		// a symbolic byte at a structural position: case-split its value
		v := p.th.st.concretize(t, 80, "json structural byte")
		p.e[p.pos] = mkBV(8, v)
		return byte(v), true
	}
	return byte(t.c), true
}

func (p *ropeParser) skipWS() {
	for {
		b, ok := p.peekByte()
		if !ok || !(b == ' ' || b == '\t' || b == '\n' || b == '\r') {
			return
		}
		p.pos++
	}
}

// parseValue returns a Token describing the next JSON value, or nil on error.
func (p *ropeParser) parseValue() *Token {
	p.skipWS()
	if p.pos >= len(p.e) {
		p.err = true
		return nil
	}
	if tk, ok := p.e[p.pos].(*Token); ok {
		p.pos++
		// a free token may be invalid JSON
		k := p.th.tokKind(tk)
		if tk.kind < 0 {
			if p.th.st.branch(mkEq(k, mkBV(8, kInvalid)), "tok-invalid") {
				p.err = true
				return nil
			}
		}
		return tk
	}
	b, _ := p.peekByte()
	start := p.pos
	switch {
	case b == '{':
		p.pos++
		tk := p.th.newEngineToken(kObject)
		p.skipWS()
		if c, _ := p.peekByte(); c == '}' {
			p.pos++
			return tk
		}
		for {
			p.skipWS()
			c, ok := p.peekByte()
			if !ok || c != '"' {
				p.err = true
				return nil
			}
			key := p.parseStringLit()
			if p.err {
				return nil
			}
			p.skipWS()
			if c, _ := p.peekByte(); c != ':' {
				p.err = true
				return nil
			}
			p.pos++
			val := p.parseValue()
			if p.err {
				return nil
			}
			tk.obj = append(tk.obj, TokMem{key: key, val: val})
			p.skipWS()
			c, _ = p.peekByte()
			p.pos++
			if c == '}' {
				return tk
			}
			if c != ',' {
				p.err = true
				return nil
			}
		}
	case b == '[':
		p.pos++
		tk := p.th.newEngineToken(kArray)
		tk.arr = []*Token{}
		p.skipWS()
		if c, _ := p.peekByte(); c == ']' {
			p.pos++
			return tk
		}
		for {
			val := p.parseValue()
			if p.err {
				return nil
			}
			tk.arr = append(tk.arr, val)
			p.skipWS()
			c, _ := p.peekByte()
			p.pos++
			if c == ']' {
				return tk
			}
			if c != ',' {
				p.err = true
				return nil
			}
		}
	case b == '"':
		s := p.parseStringLit()
		if p.err {
			return nil
		}
		return p.th.stringToken(s)
	default:
		// number / true / false / null: scan constant bytes up to a delimiter
		for {
			c, ok := p.peekByte()
			if !ok || c == ',' || c == '}' || c == ']' || c == ' ' || c == '\n' || c == '\t' || c == '\r' {
				break
			}
			p.pos++
		}
		if p.pos == start {
			p.err = true
			return nil
		}
		lit, _ := (&StrVal{e: p.e[start:p.pos]}).goString()
		return p.th.literalToken(lit, &p.err)
	}
}

// parseStringLit reads a constant JSON string literal (simple escapes only).
func (p *ropeParser) parseStringLit() *StrVal {
	p.pos++ // opening quote
	var out []Value
	for {
		if p.pos >= len(p.e) {
			p.err = true
			return nil
		}
		t, ok := p.e[p.pos].(*Term)
		if !ok {
			p.err = true
			return nil
		}
		p.pos++
		if !t.IsConst() {
			// symbolic content byte: must not be a quote, backslash or control
			bad := mkOr(mkEq(t, mkBV(8, '"')), mkOr(mkEq(t, mkBV(8, '\\')), mkCmp("bvult", t, mkBV(8, 0x20))))
			if p.th.st.branch(bad, "string-lit-special") {
				v := p.th.st.concretize(t, 40, "string literal special byte")
				switch {
				case v == '"':
					return &StrVal{e: out}
				case v == '\\':
					p.th.st.abort("escape sequence in literal JSON text not modelled")
				default:
					p.err = true
					return nil
				}
			}
			out = append(out, t)
			continue
		}
		switch byte(t.c) {
		case '"':
			return &StrVal{e: out}
		case '\\':
			p.th.st.abort("escape sequence in literal JSON text not modelled")
		default:
			if t.c < 0x20 {
				p.err = true
				return nil
			}
			out = append(out, t)
		}
	}
}

// stringToken returns the JSON string token whose decoded content is s.
func (th *Thread) stringToken(s *StrVal) *Token {
	th.st.tokSeq++
	tk := &Token{ns: mkBV(64, nsStr), v: mkBV(64, uint64(th.st.tokSeq)), kind: kString, str: s, engine: true}
	return tk
}

// literalToken makes a token for constant text such as 12, null, true.
func (th *Thread) literalToken(lit string, perr *bool) *Token {
	kind := -1
	switch lit {
	case "null":
		kind = kNull
	case "true":
		kind = kTrue
	case "false":
		kind = kFalse
	default:
		if validNumber(lit) {
			kind = kNumber
		}
	}
	if kind < 0 {
		*perr = true
		return nil
	}
	tk := &Token{ns: mkBV(64, nsLit), v: mkBV(64, th.st.intern(lit)), kind: kind, lit: lit, engine: true}
	return tk
}

func validNumber(s string) bool {
	i := 0
	if i < len(s) && s[i] == '-' {
		i++
	}
	if i >= len(s) {
		return false
	}
	if s[i] == '0' {
		i++
	} else if s[i] >= '1' && s[i] <= '9' {
		for i < len(s) && s[i] >= '0' && s[i] <= '9' {
			i++
		}
	} else {
		return false
	}
	if i < len(s) && s[i] == '.' {
		i++
		j := i
		for i < len(s) && s[i] >= '0' && s[i] <= '9' {
			i++
		}
		if i == j {
			return false
		}
	}
	if i < len(s) && (s[i] == 'e' || s[i] == 'E') {
		i++
		if i < len(s) && (s[i] == '+' || s[i] == '-') {
			i++
		}
		j := i
		for i < len(s) && s[i] >= '0' && s[i] <= '9' {
			i++
		}
		if i == j {
			return false
		}
	}
	return i == len(s)
}

// parseRope parses a whole byte sequence as one JSON value.
func (th *Thread) parseRope(e []Value) (*Token, bool) {
	p := &ropeParser{th: th, e: e}
	tk := p.parseValue()
	if p.err || tk == nil {
		return nil, false
	}
	p.skipWS()
	if p.pos != len(p.e) {
		return nil, false
	}
	return tk, true
}
