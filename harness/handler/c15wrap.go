//go:build verif

package handler

import (
	"context"
	"encoding/json"
	"errors"

	"github.com/creachadair/jrpc2"
)

type verifArg struct {
	A json.RawMessage `json:"a"`
	B string          `json:"b"`
}

type verifStrictArg struct {
	A json.RawMessage `json:"a"`
	B string          `json:"b"`
}

func (*verifStrictArg) DisallowUnknownFields() {}

type verifCapture struct {
	calls int
	a     json.RawMessage
	b     string
	req   *jrpc2.Request
	res   string
	err   error
}

var verifErrHandler = errors.New("handler failure")

// verifFunc returns a function of the chosen documented signature scheme.
func verifFunc(scheme int, c *verifCapture) any {
	switch scheme {
	case 0:
		return func(context.Context) error { c.calls++; return c.err }
	case 1:
		return func(context.Context) string { c.calls++; return c.res }
	case 2:
		return func(context.Context) (string, error) { c.calls++; return c.res, c.err }
	case 3:
		return func(_ context.Context, x verifArg) error { c.calls++; c.a, c.b = x.A, x.B; return c.err }
	case 4:
		return func(_ context.Context, x verifArg) string { c.calls++; c.a, c.b = x.A, x.B; return c.res }
	case 5:
		return func(_ context.Context, x verifArg) (string, error) {
			c.calls++
			c.a, c.b = x.A, x.B
			return c.res, c.err
		}
	case 6:
		return func(_ context.Context, x *verifArg) (string, error) {
			c.calls++
			c.a, c.b = x.A, x.B
			return c.res, c.err
		}
	case 7:
		return func(_ context.Context, x *verifStrictArg) (string, error) {
			c.calls++
			c.a, c.b = x.A, x.B
			return c.res, c.err
		}
	case 8:
		return func(_ context.Context, r *jrpc2.Request) (string, error) { c.calls++; c.req = r; return c.res, c.err }
	}
	return nil
}

type VerifInner struct {
	X json.RawMessage `json:"x"`
}

// verifEmbedArg has a tagged embedded field (a positional slot of its own), an
// untagged embedded field and an unexported field (no slots), and a skipped one.
type verifEmbedArg struct {
	VerifInner `json:"inner"`
	N          json.RawMessage `json:"n"`
	hidden     int
	Skip       int `json:"-"`
	// encoding/json names this field "-" (the comma makes it a name, not the
	// omission marker), so it is a positional slot.
	Dash json.RawMessage `json:"-,"`
}

// Harness_C15_embedded: the array-to-field mapping follows the documented
// field-name rules (tagged embedded fields count, unexported and "-" do not).
func Harness_C15_embedded() {
	calls := 0
	var got verifEmbedArg
	fi, err := Check(func(_ context.Context, x verifEmbedArg) error { calls++; got = x; return nil })
	vassert(err == nil, "accepted")
	h := fi.Wrap()
	xtok := nondetToken("x")
	ntok := nondetToken("n")
	dtok := nondetToken("d")
	assume(tokKind(xtok) != tkInvalid && tokKind(xtok) != tkNull && tokKind(ntok) != tkInvalid && tokKind(ntok) != tkNull)
	assume(tokKind(dtok) != tkInvalid && tokKind(dtok) != tkNull)
	inner := tokObject([]string{"x"}, []json.RawMessage{xtok})
	n := 1 + nondetChoice("elements", 4)
	elems := []json.RawMessage{inner, ntok, dtok, tokLit("3")}[:n]
	parsed, _ := jrpc2.ParseRequests(tokObject([]string{"jsonrpc", "id", "method", "params"},
		[]json.RawMessage{tokString("2.0"), tokLit("1"), tokString("m"), tokArray(elems)}))
	_, herr := h(context.Background(), parsed[0].ToRequest())
	if n == 3 {
		vassert(herr == nil && calls == 1, "C15: an array with one element per positional field is accepted")
		vassert(tokSame(got.X, xtok) && tokSame(got.N, ntok), "C15: element i is decoded into positional field i")
		vassert(tokSame(got.Dash, dtok), "C15: a field tagged \"-,\" is named \"-\" and is a positional slot")
		reach("embedded-mapped")
	} else {
		vassert(calls == 0 && herr != nil && jrpc2.ErrorCode(herr) == jrpc2.InvalidParams, "C15: any other array length is InvalidParams without a call")
		reach("embedded-arity")
	}
	_ = got.hidden
}

// Harness_C15_check: Check accepts exactly the documented schemes.
func Harness_C15_check() {
	c := &verifCapture{}
	k := nondetChoice("value", 17)
	var fn any
	want := true
	switch {
	case k <= 8:
		fn = verifFunc(k, c)
	case k == 9:
		fn, want = nil, false
	case k == 10:
		fn, want = 42, false // not a function
	case k == 11:
		fn, want = func() error { return nil }, false // no context
	case k == 12:
		fn, want = func(int) error { return nil }, false // first parameter is not a context
	case k == 13:
		fn, want = func(context.Context, verifArg, verifArg) error { return nil }, false // too many parameters
	case k == 14:
		fn, want = func(context.Context) (string, string) { return "", "" }, false // second result is not error
	case k == 15:
		fn, want = func(context.Context, ...int) error { return nil }, false // variadic
	case k == 16:
		fn, want = func(context.Context) {}, false // no result
	}
	fi, err := Check(fn)
	if !want {
		vassert(err != nil, "C15: Check rejects every value that is not one of the documented signature schemes")
		reach("rejected")
		return
	}
	vassert(err == nil && fi != nil, "C15: Check accepts the documented signature schemes")
	hasArg := k >= 3
	vassert((fi.Argument != nil) == hasArg, "C15: FuncInfo.Argument describes the parameter")
	vassert(fi.ReportsError == (k != 1 && k != 4), "C15: FuncInfo.ReportsError describes the signature")
	vassert((fi.Result != nil) == (k != 0 && k != 3), "C15: FuncInfo.Result describes the signature")
	reach("accepted")
}

// Harness_C15_wrap: the handler built by Check/Wrap either calls the function
// exactly once with the decoded params, or reports InvalidParams without
// calling it; it never panics.
func Harness_C15_wrap() {
	scheme := nondetChoice("scheme", 9)
	c := &verifCapture{res: nondetString("result", 1)}
	if nondetBool("function-fails") {
		c.err = verifErrHandler
	}
	fi, err := Check(verifFunc(scheme, c))
	vassert(err == nil, "accepted scheme")
	strict := nondetBool("set-strict")
	allowArray := nondetBool("allow-array")
	h := fi.SetStrict(strict).AllowArray(allowArray).Wrap()

	// the params
	atok := nondetToken("a")
	assume(tokKind(atok) != tkInvalid && tokKind(atok) != tkNull)
	bstr := nondetString("b", 1)
	form := nondetChoice("params", 7)
	keys := []string{"jsonrpc", "id", "method"}
	vals := []json.RawMessage{tokString("2.0"), tokLit("1"), tokString("m")}
	var params json.RawMessage
	switch form {
	case 0: // absent
	case 1: // object with both fields
		params = tokObject([]string{"a", "b"}, []json.RawMessage{atok, tokString(bstr)})
	case 2: // object with an unknown field
		params = tokObject([]string{"a", "b", "zzz"}, []json.RawMessage{atok, tokString(bstr), tokLit("1")})
	case 3: // array of the right length
		params = tokArray([]json.RawMessage{atok, tokString(bstr)})
	case 4: // array too short
		params = tokArray([]json.RawMessage{atok})
	case 5: // array too long
		params = tokArray([]json.RawMessage{atok, tokString(bstr), tokLit("3")})
	case 6: // object whose b has the wrong type
		params = tokObject([]string{"a", "b"}, []json.RawMessage{atok, tokLit("7")})
	}
	if params != nil {
		keys, vals = append(keys, "params"), append(vals, params)
	}
	parsed, perr := jrpc2.ParseRequests(tokObject(keys, vals))
	vassert(perr == nil && len(parsed) == 1 && parsed[0].Error == nil, "the request is valid")
	req := parsed[0].ToRequest()

	got, herr := h(context.Background(), req)
	vassert(c.calls <= 1, "C15: the function is called at most once")

	// expectation
	callExpected := true
	argA, argB := json.RawMessage(nil), ""
	switch {
	case scheme <= 2:
		callExpected = form == 0
	case scheme == 8:
		callExpected = true
	default:
		isStrictType := scheme == 7
		rejectUnknown := strict || isStrictType
		switch form {
		case 0:
		case 1:
			argA, argB = atok, bstr
		case 2:
			argA, argB = atok, bstr
			if rejectUnknown {
				callExpected = false
			}
		case 3:
			argA, argB = atok, bstr
			if !allowArray {
				callExpected = false
			}
		case 4, 5, 6:
			callExpected = false
		}
	}
	if !callExpected {
		vassert(c.calls == 0, "C15: on invalid params the function is not called")
		vassert(herr != nil && jrpc2.ErrorCode(herr) == jrpc2.InvalidParams, "C15: ... and InvalidParams is reported")
		reach("invalid-params")
		return
	}
	vassert(c.calls == 1, "C15: the function is called exactly once")
	if scheme >= 3 && scheme <= 7 {
		vassert(tokSame(c.a, argA) && c.b == argB, "C15: ... with the argument encoding/json decodes from the params (after the array-to-field mapping)")
		reach("decoded-arg")
	}
	if scheme == 8 {
		vassert(c.req == req, "C15: a *jrpc2.Request parameter receives the request itself")
	}
	// result and error are passed through unchanged
	reportsErr := scheme != 1 && scheme != 4
	if reportsErr && c.err != nil {
		vassert(herr == c.err && got == nil, "C15: the function's error is returned unchanged")
		reach("error-passed")
	} else {
		vassert(herr == nil, "C15: no error is invented")
		if scheme == 0 || scheme == 3 {
			vassert(got == nil, "C15: an error-only function has no result")
		} else {
			s, isStr := got.(string)
			vassert(isStr && s == c.res, "C15: the function's result is returned unchanged")
		}
		reach("result-passed")
	}
}
