//go:build verif

package handler

import (
	"context"
	"encoding/json"
	"sync"

	"github.com/creachadair/jrpc2"
)

// verifPicky is a parameter type with its own decoder, which rejects some
// values with an error of its own (a *jrpc2.Error with a private code).
type verifPicky struct{ s string }

func (p *verifPicky) UnmarshalJSON(data []byte) error {
	var s string
	if err := json.Unmarshal(data, &s); err != nil {
		return err
	}
	if s == "!" {
		return jrpc2.Errorf(jrpc2.Code(1001), "value rejected by the parameter type")
	}
	p.s = s
	return nil
}

// Harness_C16_custom: a positional parameter whose own decoder rejects the
// value: InvalidParams, never the decoder's private code, and no call.
func Harness_C16_custom() {
	calls := 0
	fi, err := Positional(func(_ context.Context, a json.RawMessage, p verifPicky) error { calls++; return nil }, "first", "second")
	vassert(err == nil, "accepted")
	h := fi.Wrap()
	b := nondetString("b", 1)
	var params json.RawMessage
	if nondetBool("object-form") {
		params = tokObject([]string{"first", "second"}, []json.RawMessage{tokLit("1"), tokString(b)})
	} else {
		params = tokArray([]json.RawMessage{tokLit("1"), tokString(b)})
	}
	parsed, _ := jrpc2.ParseRequests(tokObject([]string{"jsonrpc", "id", "method", "params"},
		[]json.RawMessage{tokString("2.0"), tokLit("1"), tokString("m"), params}))
	_, herr := h(context.Background(), parsed[0].ToRequest())
	if b == "!" {
		vassert(calls == 0 && herr != nil && jrpc2.ErrorCode(herr) == jrpc2.InvalidParams, "C16: a value the parameter's decoder rejects is InvalidParams without a call")
		reach("custom-rejected")
	} else {
		vassert(calls == 1 && herr == nil, "C16: an accepted value reaches the function")
		reach("custom-accepted")
	}
	// the same through Args
	var raw json.RawMessage
	var pk verifPicky
	req2 := parsed[0].ToRequest()
	aerr := req2.UnmarshalParams(&Args{&raw, &pk})
	if nondetBool("object-form-args") {
		return
	}
	_ = aerr
}

// Harness_C16_positional: a handler built by Positional from
// func(ctx, X1, X2) with two names accepts exactly an array of two elements or
// an object using only the given names; anything else is InvalidParams
// without a call.
func Harness_C16_positional() {
	calls := 0
	var gotA json.RawMessage
	var gotB string
	fn := func(_ context.Context, a json.RawMessage, b string) (string, error) {
		calls++
		gotA, gotB = a, b
		return "done", nil
	}
	fi, err := Positional(fn, "first", "second")
	vassert(err == nil, "C16: Positional accepts func(ctx, X1, X2) with two names")
	h := fi.Wrap()

	atok := nondetToken("a")
	assume(tokKind(atok) != tkInvalid && tokKind(atok) != tkNull)
	bstr := nondetString("b", 1)
	form := nondetChoice("params", 9)
	var params json.RawMessage
	wantCall := false
	wantA, wantB := json.RawMessage(nil), ""
	switch form {
	case 0: // array of exactly n elements
		params = tokArray([]json.RawMessage{atok, tokString(bstr)})
		wantCall, wantA, wantB = true, atok, bstr
	case 1: // array with null for the second element
		params = tokArray([]json.RawMessage{atok, tokLit("null")})
		wantCall, wantA, wantB = true, atok, ""
	case 2: // too short
		params = tokArray([]json.RawMessage{atok})
	case 3: // too long
		params = tokArray([]json.RawMessage{atok, tokString(bstr), tokLit("3")})
	case 4: // empty array
		params = tokArray(nil)
	case 5: // object with both names
		params = tokObject([]string{"first", "second"}, []json.RawMessage{atok, tokString(bstr)})
		wantCall, wantA, wantB = true, atok, bstr
	case 6: // object with a subset of the names: missing ones stay zero
		params = tokObject([]string{"second"}, []json.RawMessage{tokString(bstr)})
		wantCall, wantA, wantB = true, nil, bstr
	case 7: // object with an unknown name
		params = tokObject([]string{"first", "third"}, []json.RawMessage{atok, tokLit("1")})
	case 8: // wrong element type
		params = tokArray([]json.RawMessage{atok, tokLit("7")})
	}
	parsed, perr := jrpc2.ParseRequests(tokObject([]string{"jsonrpc", "id", "method", "params"},
		[]json.RawMessage{tokString("2.0"), tokLit("1"), tokString("m"), params}))
	vassert(perr == nil && parsed[0].Error == nil, "the request is valid")
	res, herr := h(context.Background(), parsed[0].ToRequest())
	if !wantCall {
		vassert(calls == 0, "C16: otherwise the function is not called")
		vassert(herr != nil && jrpc2.ErrorCode(herr) == jrpc2.InvalidParams, "C16: ... and InvalidParams is reported")
		reach("rejected")
		return
	}
	vassert(herr == nil && calls == 1, "C16: the function is called exactly once")
	vassert(tokSame(gotA, wantA) && gotB == wantB, "C16: element i (or the named member) is decoded into parameter i; missing names and nulls leave zero values")
	s, isStr := res.(string)
	vassert(isStr && s == "done", "C16: the result is passed through")
	reach("called")
}

// Harness_C16_positional_arity: name/arity mismatches are refused.
func Harness_C16_positional_arity() {
	fn := func(context.Context, int, int) error { return nil }
	switch nondetChoice("names", 4) {
	case 0:
		_, err := Positional(fn, "a")
		vassert(err != nil, "C16: too few names are refused")
	case 1:
		_, err := Positional(fn, "a", "b", "c")
		vassert(err != nil, "C16: too many names are refused")
	case 2:
		_, err := Positional(func(context.Context, ...int) error { return nil }, "a")
		vassert(err != nil, "C16: variadic functions are refused")
	case 3:
		fi, err := Positional(func(context.Context) error { return nil })
		vassert(err == nil && fi != nil, "C16: no positional parameters: plain Check")
	}
	reach("arity")
}

// Harness_C16_concurrent: two requests to the same positional handler at the
// same time (a server does that for concurrent requests): each invocation
// receives the values of its own request.  Runs with preemption bound 1: the
// call into the user function through reflection is a scheduling point.
// Natively (replay) the race window is a few instructions wide, so the round
// is repeated many times behind a start barrier.
func Harness_C16_concurrent() {
	verifMapOrders(false)
	type got struct{ a, b string }
	var mu sync.Mutex
	var seen []got
	fn := func(_ context.Context, a, b string) (string, error) {
		mu.Lock()
		seen = append(seen, got{a, b})
		mu.Unlock()
		return a + b, nil
	}
	fi, err := Positional(fn, "first", "second")
	vassert(err == nil, "C16: Positional accepts func(ctx, X1, X2) with two names")
	h := fi.Wrap()
	req := func(id, a, b string) *jrpc2.Request {
		parsed, perr := jrpc2.ParseRequests(tokObject([]string{"jsonrpc", "id", "method", "params"},
			[]json.RawMessage{tokString("2.0"), tokLit(id), tokString("m"), tokArray([]json.RawMessage{tokString(a), tokString(b)})}))
		vassert(perr == nil && parsed[0].Error == nil, "the request is valid")
		return parsed[0].ToRequest()
	}
	r1, r2 := req("1", "a1", "b1"), req("2", "a2", "b2")
	rounds := 1
	if !inEngine() {
		rounds = 200000
	}
	for k := 0; k < rounds; k++ {
		seen = seen[:0]
		var res1, res2 any
		var wg sync.WaitGroup
		start := make(chan struct{})
		wg.Add(2)
		go func() { defer wg.Done(); <-start; res1, _ = h(context.Background(), r1) }()
		go func() { defer wg.Done(); <-start; res2, _ = h(context.Background(), r2) }()
		close(start)
		wg.Wait()
		vassert(len(seen) == 2, "C16: each request calls the function exactly once")
		for _, g := range seen {
			vassert((g.a == "a1" && g.b == "b1") || (g.a == "a2" && g.b == "b2"), "C16: every invocation gets the values of one request, not a mixture")
		}
		vassert(seen[0] != seen[1], "C16: the two invocations get the values of the two requests")
		s1, _ := res1.(string)
		s2, _ := res2.(string)
		vassert(s1 == "a1b1" && s2 == "a2b2", "C16: each caller gets the result computed from its own values")
	}
	reach("concurrent")
}
