//go:build verif

package handler

import (
	"encoding/json"

	"github.com/creachadair/jrpc2"
)

// verifElem: an array element / member value of a symbolic JSON kind.
func verifElem(tag string) (json.RawMessage, int) {
	t := nondetToken(tag)
	k := tokKind(t)
	assume(k != tkInvalid)
	return t, k
}

// Harness_C16_args: Args decodes position by position with exact length.
func Harness_C16_args() {
	maxn := 4
	if thorough() {
		maxn = 5
	}
	n := nondetChoice("targets", maxn) // number of slots
	m := nondetChoice("elements", maxn)
	var ival [4]int
	var sval [4]string
	var rval [4]json.RawMessage
	kinds := make([]int, n) // 0 nil slot, 1 *int, 2 *string, 3 *json.RawMessage
	args := make(Args, n)
	for i := 0; i < n; i++ {
		kinds[i] = nondetChoice("slot", 4)
		ival[i], sval[i] = -7, "untouched"
		switch kinds[i] {
		case 1:
			args[i] = &ival[i]
		case 2:
			args[i] = &sval[i]
		case 3:
			args[i] = &rval[i]
		}
	}
	var elems []json.RawMessage
	ekind := make([]int, m)
	for i := 0; i < m; i++ {
		var e json.RawMessage
		e, ekind[i] = verifElem("elem")
		elems = append(elems, e)
	}
	var data json.RawMessage
	notArray := nondetBool("not-an-array")
	if notArray {
		var k int
		data, k = verifElem("scalar")
		assume(k != tkArray && k != tkNull)
	} else {
		data = tokArray(elems)
	}
	err := json.Unmarshal(data, &args)
	if notArray {
		vassert(err != nil, "C16: Args accepts only an array")
		reach("not-array")
		return
	}
	if m != n {
		vassert(err != nil, "C16: Args requires exactly as many elements as slots")
		for i := 0; i < n; i++ {
			vassert(ival[i] == -7 && sval[i] == "untouched" && rval[i] == nil, "C16: on a length mismatch no target is touched")
		}
		reach("length-mismatch")
		return
	}
	// element i goes to slot i; the first failure is reported
	mismatch, intSlot := false, false
	for i := 0; i < n; i++ {
		switch kinds[i] {
		case 1:
			if !(ekind[i] == tkNumber || ekind[i] == tkNull) {
				mismatch = true
			}
			if ekind[i] == tkNumber {
				intSlot = true // a JSON number need not be an int
			}
		case 2:
			if !(ekind[i] == tkString || ekind[i] == tkNull) {
				mismatch = true
			}
		}
	}
	if err != nil {
		vassert(mismatch || intSlot, "C16: decoding fails only when some element does not fit its slot")
		reach("element-error")
		return
	}
	vassert(!mismatch, "C16: a wrong element type is reported")
	for i := 0; i < n; i++ {
		switch kinds[i] {
		case 3:
			vassert(tokSame(rval[i], elems[i]), "C16: element i is decoded into slot i")
		case 1:
			if ekind[i] == tkNull {
				vassert(ival[i] == -7, "C16: null leaves the target unchanged")
			}
		case 2:
			if ekind[i] == tkNull {
				vassert(sval[i] == "untouched", "C16: null leaves the target unchanged")
			}
		}
	}
	reach("decoded")
}

// Harness_C16_args_marshal: Args encodes position by position.
func Harness_C16_args_marshal() {
	n := nondetChoice("n", 3)
	var a Args
	want := []json.RawMessage{}
	for i := 0; i < n; i++ {
		if nondetBool("string") {
			s := nondetString("s", 2)
			a = append(a, s)
			want = append(want, tokString(s))
		} else {
			e, _ := verifElem("raw")
			assume(noControlBytes(e))
			a = append(a, e)
			want = append(want, e)
		}
	}
	bits, err := json.Marshal(a)
	vassert(err == nil, "C16: Args of marshalable values marshals")
	out, ok := tokParse(bits)
	vassert(ok, "valid JSON")
	elems, isArr := tokElems(out)
	vassert(isArr && len(elems) == n, "C16: Args encodes as an array with one element per argument (empty: [])")
	for i := range want {
		vassert(tokSame(elems[i], want[i]), "C16: position by position")
	}
	reach("marshalled")
}

// Harness_C16_obj: Obj decodes only keys present in both, touching nothing else.
func Harness_C16_obj() {
	keysIn := []string{"a", "b", "c"}
	var va, vb json.RawMessage
	o := Obj{}
	hasA, hasB := nondetBool("target-a"), nondetBool("target-b")
	if hasA {
		o["a"] = &va
	}
	if hasB {
		o["b"] = &vb
	}
	var keys []string
	var vals []json.RawMessage
	present := map[string]json.RawMessage{}
	for _, k := range keysIn {
		if nondetBool("member-" + k) {
			e, _ := verifElem("val-" + k)
			keys = append(keys, k)
			vals = append(vals, e)
			present[k] = e
		}
	}
	err := json.Unmarshal(tokObject(keys, vals), &o)
	vassert(err == nil, "C16: RawMessage targets always decode")
	if hasA && present["a"] != nil {
		vassert(tokSame(va, present["a"]), "C16: a key present in both is decoded into its target")
		reach("decoded")
	} else {
		vassert(va == nil, "C16: no other target is touched")
	}
	if hasB && present["b"] != nil {
		vassert(tokSame(vb, present["b"]), "C16: a key present in both is decoded into its target")
	} else {
		vassert(vb == nil, "C16: no other target is touched")
	}
	vassert(len(o) == btoi(hasA)+btoi(hasB), "C16: the map itself is not changed")
	// a non-object is refused
	scalar, k := verifElem("scalar")
	assume(k != tkObject && k != tkNull)
	vassert(json.Unmarshal(scalar, &o) != nil, "C16: Obj accepts only an object")
	reach("obj-done")
}

func btoi(b bool) int {
	if b {
		return 1
	}
	return 0
}

// Harness_C15_params: Request.UnmarshalParams and the array-to-object
// translation used for struct parameters.
func Harness_C15_params() {
	// arrayStub.translate
	names := []string{"x", "y"}
	stub := &arrayStub{posNames: names}
	m := nondetChoice("elements", 4)
	var elems []json.RawMessage
	for i := 0; i < m; i++ {
		e, _ := verifElem("elem")
		elems = append(elems, e)
	}
	out, err := stub.translate(tokArray(elems))
	if m != len(names) {
		vassert(err != nil && jrpc2.ErrorCode(err) == jrpc2.InvalidParams, "C15: an array of the wrong length is InvalidParams")
		reach("wrong-arity")
	} else {
		vassert(err == nil, "C15: an array of the right length is translated")
		obj, ok := tokParse(out)
		vassert(ok && tokMembers(obj) == 2, "C15: the translation is an object with one member per name")
		x, hasX := tokMember(obj, "x")
		y, hasY := tokMember(obj, "y")
		vassert(hasX && hasY && tokSame(x, elems[0]) && tokSame(y, elems[1]), "C15: element i becomes field name i")
		reach("translated")
	}
	// non-arrays pass through unchanged
	o, k := verifElem("nonarray")
	assume(k != tkArray)
	same, err := stub.translate(o)
	vassert(err == nil && tokSame(same, o), "C15: non-array params are left alone")
	reach("passthrough")
}
