//go:build verif

package handler

import (
	"context"

	"github.com/creachadair/jrpc2"
)

func verifTagged(tag int) jrpc2.Handler {
	return func(context.Context, *jrpc2.Request) (any, error) { return tag, nil }
}

func verifTagOf(h jrpc2.Handler) int {
	if h == nil {
		return 0
	}
	v, _ := h(context.Background(), nil)
	return v.(int)
}

// Harness_C17_map: Map matches the whole name, nothing else.
func Harness_C17_map() {
	kl := 3
	if thorough() {
		kl = 8
	}
	name := nondetString("name", kl)
	k1 := nondetString("k1", kl)
	k2 := nondetString("k2", kl)
	assume(k1 != k2)
	m := Map{k1: verifTagged(1), k2: verifTagged(2)}
	got := verifTagOf(m.Assign(context.Background(), name))
	switch {
	case name == k1:
		vassert(got == 1, "Map returns the handler registered under the exact name (k1)")
		reach("hit")
	case name == k2:
		vassert(got == 2, "Map returns the handler registered under the exact name (k2)")
	default:
		vassert(got == 0, "Map returns nil for an unregistered name")
		reach("miss")
	}
	names := m.Names()
	vassert(len(names) == 2, "Names lists every method")
	vassert(names[0] <= names[1], "Names is sorted")
	vassert((names[0] == k1 && names[1] == k2) || (names[0] == k2 && names[1] == k1), "Names is complete")
}

// verifFirstDot is the reference: index of the first '.' or -1.
func verifFirstDot(s string) int {
	for i := 0; i < len(s); i++ {
		if s[i] == '.' {
			return i
		}
	}
	return -1
}

type verifSpy struct {
	calls int
	last  string
	tag   int
}

func (v *verifSpy) Assign(_ context.Context, m string) jrpc2.Handler {
	v.calls++
	v.last = m
	return verifTagged(v.tag)
}

// Harness_C17_servicemap: ServiceMap splits at the first '.' only.
func Harness_C17_servicemap() {
	max := 4
	if thorough() {
		max = 12
	}
	name := nondetString("name", max)
	sl := 2
	if thorough() {
		sl = 4
	}
	svc := nondetString("svc", sl)
	other := nondetString("other", sl)
	assume(svc != other)
	a, b := &verifSpy{tag: 1}, &verifSpy{tag: 2}
	m := ServiceMap{svc: a, other: b}
	got := verifTagOf(m.Assign(context.Background(), name))
	i := verifFirstDot(name)
	if i < 0 {
		vassert(got == 0 && a.calls == 0 && b.calls == 0, "a name without a dot has no handler")
		reach("nodot")
		return
	}
	head, rest := name[:i], name[i+1:]
	switch head {
	case svc:
		vassert(got == 1 && a.calls == 1 && b.calls == 0, "dispatched to the service named before the first dot")
		vassert(a.last == rest, "the service sees everything after the first dot")
		reach("dispatched")
	case other:
		vassert(got == 2 && b.calls == 1 && a.calls == 0 && b.last == rest, "dispatched to the other service")
	default:
		vassert(got == 0 && a.calls == 0 && b.calls == 0, "unknown service has no handler")
		reach("unknown-service")
	}
}

// Harness_C17_nested: two levels of ServiceMap; Names sorted and complete.
func Harness_C17_nested() {
	nl := 5
	if thorough() {
		nl = 12
	}
	name := nondetString("name", nl)
	leaf := &verifSpy{tag: 7}
	m := ServiceMap{"a": ServiceMap{"b": leaf}, "c": Map{"x": verifTagged(3), "": verifTagged(4)}}
	got := verifTagOf(m.Assign(context.Background(), name))
	switch {
	case len(name) >= 4 && name[:4] == "a.b.":
		vassert(got == 7 && leaf.calls == 1 && leaf.last == name[4:], "nested split: one dot per level")
		reach("nested")
	case name == "c.x":
		vassert(got == 3, "Map inside ServiceMap")
	case name == "c.":
		vassert(got == 4, "empty method segment is looked up verbatim")
		reach("empty-segment")
	default:
		vassert(got == 0, "anything else has no handler")
	}
	names := m.Names()
	vassert(len(names) == 3 && names[0] == "a.b.*" && names[1] == "c." && names[2] == "c.x", "Names of nested maps: sorted, complete")
}

// Harness_C17_names: ServiceMap.Names is sorted and complete for arbitrary
// service and method names (a service name may be a prefix of another).
func Harness_C17_names() {
	s1 := nondetString("svc1", 2)
	s2 := nondetString("svc2", 2)
	assume(s1 != s2)
	m1 := nondetString("meth1", 1)
	m2 := nondetString("meth2", 1)
	m := ServiceMap{s1: Map{m1: verifTagged(1)}, s2: Map{m2: verifTagged(2)}}
	names := m.Names()
	vassert(len(names) == 2, "C17: Names lists every method")
	vassert(names[0] <= names[1], "C17: Names is sorted")
	a, b := s1+"."+m1, s2+"."+m2
	vassert((names[0] == a && names[1] == b) || (names[0] == b && names[1] == a), "C17: Names is complete")
	reach("names")
}
