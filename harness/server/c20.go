//go:build verif

package server

import (
	"context"
	"errors"
	"io"

	"github.com/creachadair/jrpc2"
	"github.com/creachadair/jrpc2/channel"
)

// verifConn is an in-memory channel.Channel for accepted connections.
type verifConn struct {
	in     chan []byte
	done   chan struct{}
	closed int
}

func newVerifConn() *verifConn {
	return &verifConn{in: make(chan []byte, 2), done: make(chan struct{})}
}

func (c *verifConn) Send([]byte) error { return nil }
func (c *verifConn) Recv() ([]byte, error) {
	select {
	case b, ok := <-c.in:
		if !ok {
			return nil, io.EOF
		}
		return b, nil
	case <-c.done:
		return nil, channel.ErrClosed
	}
}
func (c *verifConn) Close() error {
	c.closed++
	if c.closed == 1 {
		close(c.done)
	}
	return nil
}

// verifAccepter hands out a scripted number of connections, then fails or
// blocks until the context ends.
type verifAccepter struct {
	conns   []*verifConn
	next    int
	failErr error // nil: block until ctx ends, then report a closing error
}

func (a *verifAccepter) Accept(ctx context.Context) (channel.Channel, error) {
	if a.next < len(a.conns) {
		c := a.conns[a.next]
		a.next++
		return c, nil
	}
	if a.failErr != nil {
		return nil, a.failErr
	}
	<-ctx.Done()
	return nil, channel.ErrClosed
}

type verifSvcLog struct {
	news     int
	assigns  int
	finishes int
	running  int // servers started and not yet finished
	bad      bool
}

type verifSvc struct {
	log        *verifSvcLog
	id         int
	failAssig  bool
	assigner   jrpc2.Assigner
	finished   int
	duringInit func() // runs inside Assigner (e.g. the loop's context ends at that moment)
}

func (s *verifSvc) Assigner() (jrpc2.Assigner, error) {
	s.log.assigns++
	if s.failAssig {
		return nil, errors.New("assigner failed")
	}
	if s.duringInit != nil {
		s.duringInit()
	}
	s.log.running++
	return s.assigner, nil
}

func (s *verifSvc) Finish(a jrpc2.Assigner, st jrpc2.ServerStatus) {
	s.finished++
	s.log.finishes++
	s.log.running--
	if s.failAssig {
		s.log.bad = true // Finish for a service that never got a server
	}
}

type verifNoMethods struct{}

func (verifNoMethods) Assign(context.Context, string) jrpc2.Handler { return nil }

// Harness_C20_loop: the real Loop (with real jrpc2 servers) over a scripted
// accepter: 0..2 connections, per connection the service's Assigner may fail,
// clients close in a symbolic order or the context is cancelled, and the
// accepter ends with a closing error, another error, or blocks until the
// context ends.
func Harness_C20_loop() {
	// 0..2 connections in both tiers: with the per-connection choices
	// (Assigner fails / context ends during init) three connections exceeded
	// the path budget at delay bound 3
	maxc := 3
	nconn := nondetChoice("connections", maxc)
	log := &verifSvcLog{}
	acc := &verifAccepter{}
	var svcs []*verifSvc
	for i := 0; i < nconn; i++ {
		acc.conns = append(acc.conns, newVerifConn())
	}
	otherErr := errors.New("accept failed")
	ending := nondetChoice("accepter-ending", 3)
	switch ending {
	case 0:
		acc.failErr = channel.ErrClosed
	case 1:
		acc.failErr = otherErr
	}
	ctx, cancel := context.WithCancel(context.Background())
	newService := func() Service {
		log.news++
		s := &verifSvc{log: log, id: len(svcs), failAssig: nondetBool("assigner-fails"), assigner: verifNoMethods{}}
		if !s.failAssig && nondetBool("context-ends-during-init") {
			// the connection was accepted and its service initialises while the
			// context ends: it still gets its server, and with it its Finish
			s.duringInit = cancel
		}
		svcs = append(svcs, s)
		return s
	}
	var loopErr error
	returned := false
	go func() {
		loopErr = Loop(ctx, acc, newService, nil)
		returned = true
	}()
	quiesce()
	vassert(log.news == nconn, "C20: one fresh newService call per accepted connection")
	if log.running > 0 {
		vassert(!returned, "C20: Loop does not return while a started server is still running")
		reach("waits-for-servers")
	}
	// end the connections: either the context is cancelled or clients close
	if ending == 2 || nondetBool("cancel-context") {
		cancel()
	} else {
		for _, c := range acc.conns {
			close(c.in)
		}
	}
	quiesce()
	vassert(returned, "C20: Loop returns once the accepter has failed and every server has exited")
	vassert(log.running == 0, "C20: Loop returns only after every started server has been finished")
	for i, s := range svcs {
		if s.failAssig {
			vassert(s.finished == 0, "C20: a service whose Assigner fails gets no Finish")
			vassert(acc.conns[i].closed > 0, "C20: ... and its connection is closed rather than left dangling")
			reach("assigner-failed")
		} else {
			vassert(s.finished == 1, "C20: Finish is called exactly once per started server")
			reach("finished")
		}
	}
	vassert(!log.bad, "C20: no Finish without a server")
	if ending == 1 {
		vassert(loopErr == otherErr, "C20: an accepter failure other than a closed listener is returned")
		reach("accept-error")
	} else {
		vassert(loopErr == nil, "C20: a closed-listener error is reported as nil")
	}
	cancel()
	reach("done")
}
