//go:build verif

package server

import (
	"context"
	"io"
	"net"
	"time"

	"github.com/creachadair/jrpc2/channel"
)

// verifNetConn is an in-memory net.Conn whose peer never writes: Read blocks
// until the connection is closed.
type verifNetConn struct {
	done   chan struct{}
	closed int
}

func (c *verifNetConn) Read([]byte) (int, error)         { <-c.done; return 0, io.EOF }
func (c *verifNetConn) Write(b []byte) (int, error)      { return len(b), nil }
func (c *verifNetConn) LocalAddr() net.Addr              { return nil }
func (c *verifNetConn) RemoteAddr() net.Addr             { return nil }
func (c *verifNetConn) SetDeadline(time.Time) error      { return nil }
func (c *verifNetConn) SetReadDeadline(time.Time) error  { return nil }
func (c *verifNetConn) SetWriteDeadline(time.Time) error { return nil }
func (c *verifNetConn) Close() error {
	c.closed++
	if c.closed == 1 {
		close(c.done)
	}
	return nil
}

// verifListener is a scripted net.Listener: it hands out its connections,
// then blocks until it is closed and reports net.ErrClosed, as a real
// listener does.
type verifListener struct {
	conns    []*verifNetConn
	next     int
	done     chan struct{}
	closed   int
	onAccept func(k int) // runs just before connection k is handed out
}

func (l *verifListener) Accept() (net.Conn, error) {
	select {
	case <-l.done:
		return nil, net.ErrClosed
	default:
	}
	if l.next < len(l.conns) {
		k := l.next
		l.next++
		if l.onAccept != nil {
			l.onAccept(k)
		}
		return l.conns[k], nil
	}
	<-l.done
	return nil, net.ErrClosed
}

func (l *verifListener) Close() error {
	l.closed++
	if l.closed == 1 {
		close(l.done)
	}
	return nil
}

func (l *verifListener) Addr() net.Addr { return nil }

// Harness_C20_netaccepter: Loop over NetAccepter: whenever the context ends -
// before Loop starts, while it is blocked in Accept, or between two Accept
// calls - the accepter yields a closed-listener error, so Loop stops its
// servers, finishes them and returns nil, and the listener is closed.
func Harness_C20_netaccepter() {
	nconn := nondetChoice("connections", 2)
	lst := &verifListener{done: make(chan struct{})}
	for i := 0; i < nconn; i++ {
		lst.conns = append(lst.conns, &verifNetConn{done: make(chan struct{})})
	}
	log := &verifSvcLog{}
	var svcs []*verifSvc
	newService := func() Service {
		log.news++
		s := &verifSvc{log: log, id: len(svcs), assigner: verifNoMethods{}}
		svcs = append(svcs, s)
		return s
	}
	ctx, cancel := context.WithCancel(context.Background())
	when := nondetChoice("context-ends", 3)
	switch when {
	case 0:
		cancel() // before Loop is called
	case 2:
		if nconn == 0 {
			return
		}
		lst.onAccept = func(int) { cancel() } // as a connection is handed out: the next Accept starts with an ended context
	}
	var loopErr error
	returned := false
	go func() {
		loopErr = Loop(ctx, NetAccepter(lst, channel.Line), newService, nil)
		returned = true
	}()
	quiesce()
	if when == 1 {
		vassert(!returned, "C20: Loop serves until the context ends")
		cancel()
		quiesce()
	}
	vassert(returned, "C20: Loop returns once the context has ended")
	vassert(loopErr == nil, "C20: a closed-listener error - which is what NetAccepter yields when the context ends - is reported as nil")
	vassert(lst.closed > 0, "C20: NetAccepter closes the listener when the context ends")
	vassert(log.running == 0, "C20: Loop returns only after every started server has been finished")
	for i, s := range svcs {
		vassert(s.finished == 1, "C20: Finish is called exactly once per started server")
		vassert(lst.conns[i].closed > 0, "the connection of a stopped server is closed")
	}
	reach("net-done")
}
