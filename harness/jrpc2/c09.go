//go:build verif

package jrpc2

import (
	"context"
	"encoding/json"
	"strconv"
)

type verifCall struct {
	n      int64
	id     string
	p      *Response
	ctx    context.Context
	cancel context.CancelFunc
}

// verifPushState: a server with 0..2 outstanding callbacks (distinct decimal
// ids below the callback counter, empty unsettled slots).
func verifPushState(s *Server) []*verifCall {
	var out []*verifCall
	s.callID = nondetInt64("callid")
	assume(s.callID >= 1 && s.callID < 1<<40)
	maxc := 3
	if thorough() {
		maxc = 5
	}
	n := nondetChoice("ncalls", maxc)
	for i := 0; i < n; i++ {
		k := nondetInt64("call-id")
		assume(k >= 1 && k < s.callID)
		for _, o := range out {
			assume(o.n != k)
		}
		id := strconv.FormatInt(k, 10)
		ctx, cancel := context.WithCancel(context.Background())
		p := &Response{ch: make(chan *jmessage, 1), id: id, cancel: cancel}
		s.call[id] = p
		out = append(out, &verifCall{n: k, id: id, p: p, ctx: ctx, cancel: cancel})
	}
	return out
}

func verifPushInv(s *Server, what string) {
	for id, p := range s.call {
		vassert(p.id == id, what+": callback key equals its id")
		vassert(len(p.ch) == 0, what+": an outstanding callback has not been completed")
		k, ok := tokIntValue(json.RawMessage(id))
		vassert(ok && int64(k) < s.callID, what+": callback ids stay below the counter")
	}
}

// Harness_C09_step: one push-related step from an arbitrary valid state.
func Harness_C09_step() {
	verifMapOrders(false)
	push := nondetBool("allowpush")
	s := NewServer(verifMap{}, &ServerOptions{AllowPush: push, Concurrency: 1})
	ch := newVerifChan(s.mu, true)
	s.work = make(chan struct{}, 1)
	stopped := nondetBool("stopped")
	if !stopped {
		s.ch = ch
	}
	var calls []*verifCall
	if push && !stopped {
		calls = verifPushState(s)
	}
	verifPushInv(s, "pre-state")

	switch nondetChoice("step", 4) {
	case 0: // Notify
		err := s.Notify(context.Background(), "note", nil)
		switch {
		case !push:
			vassert(err == ErrPushUnsupported && ch.sends == 0, "C09: without AllowPush Notify reports ErrPushUnsupported and transmits nothing")
			reach("notify-unsupported")
		case stopped:
			vassert(err == ErrConnClosed && ch.sends == 0, "C09: after the connection ended Notify reports ErrConnClosed and transmits nothing")
			reach("notify-closed")
		default:
			vassert(err == nil && len(ch.sent) == 1, "C09: Notify transmits exactly one message")
			var w jmessages
			vassert(w.parseJSON(ch.sent[0]) == nil && len(w) == 1 && w[0].err == nil, "the pushed notification is a valid message")
			vassert(w[0].M == "note" && fixID(w[0].ID) == nil, "C09: a pushed notification has no id")
			vassert(len(s.call) == len(calls), "Notify registers no callback")
			reach("notified")
		}
	case 1: // Callback, then its reply
		var rsp *Response
		var cerr error
		returned := false
		ctx, cancel := context.WithCancel(context.Background())
		sendFails := push && !stopped && nondetBool("push-send-fails")
		if sendFails {
			ch.sendFail = 1
		}
		go func() {
			rsp, cerr = s.Callback(ctx, "cb", nil)
			returned = true
		}()
		quiesce()
		switch {
		case sendFails:
			vassert(returned && cerr != nil, "C09: a push whose transmission fails is reported")
			// whatever is still registered for it, the next callback must not get the same id
			for id := range s.call {
				k, isInt := tokIntValue(json.RawMessage(id))
				vassert(isInt && int64(k) < s.callID, "C09: ids of registered callbacks stay below the counter (the next callback's id is unique among outstanding ones)")
			}
			// the caller's context never ends; the server stops: nothing may stay behind
			s.Stop()
			quiesce()
			vassert(liveThreads() == "", "C08: no goroutine is left behind after the server stopped")
			reach("push-send-failed")
			return
		case !push:
			vassert(returned && cerr == ErrPushUnsupported && ch.sends == 0, "C09: without AllowPush Callback reports ErrPushUnsupported and transmits nothing")
			reach("callback-unsupported")
		case stopped:
			vassert(returned && cerr == ErrConnClosed && ch.sends == 0, "C09: after the connection ended Callback reports ErrConnClosed")
			reach("callback-closed")
		default:
			vassert(!returned && len(ch.sent) == 1, "C09: Callback transmits exactly one request and waits")
			var w jmessages
			vassert(w.parseJSON(ch.sent[0]) == nil && len(w) == 1 && w[0].err == nil && w[0].M == "cb", "the pushed call is a valid request")
			id := string(fixID(w[0].ID))
			vassert(id != "", "C09: a pushed call has an id")
			for _, o := range calls {
				vassert(id != o.id, "C09: the id is unique among outstanding callbacks")
			}
			vassert(s.call[id] != nil && len(s.call) == len(calls)+1, "the callback is registered under its id")
			verifPushInv(s, "after Callback issued")
			how := nondetChoice("ending", 3)
			switch how {
			case 0: // the reply arrives
				s.mu.Lock()
				keep := s.filterBatchLocked(jmessages{{ID: json.RawMessage(id), R: json.RawMessage("7")}})
				s.mu.Unlock()
				quiesce()
				vassert(len(keep) == 0, "a matched reply is consumed")
				vassert(returned && cerr == nil && rsp != nil && rsp.ID() == id && tokSame(rsp.result, json.RawMessage("7")), "C09: Callback returns the reply bearing its id")
				reach("callback-replied")
			case 1: // the context ends first
				cancel()
				quiesce()
				vassert(returned && cerr == context.Canceled && rsp == nil, "C09: Callback returns the context's error when the context ends first")
				reach("callback-cancelled")
			case 2: // the server stops
				s.Stop()
				quiesce()
				vassert(returned && cerr != nil, "C09: Callback returns an error when the server stops")
				reach("callback-stopped")
			}
			vassert(s.call[id] == nil, "C09: a finished callback is no longer outstanding")
			for _, o := range calls {
				if how != 2 {
					vassert(s.call[o.id] == o.p && len(o.p.ch) == 0, "C09: other callbacks are untouched")
				}
			}
		}
		cancel()
	case 2: // the reader filters an inbound batch
		maxb := 2
		if thorough() {
			maxb = 4
		}
		n := 1 + nondetChoice("n", maxb)
		var batch jmessages
		var match []int
		for i := 0; i < n; i++ {
			m := &jmessage{batch: n > 1}
			mi := -1
			switch nondetChoice("kind", 3) {
			case 0: // reply to an outstanding callback
				if len(calls) > 0 {
					mi = nondetChoice("which", len(calls))
					for _, prev := range match {
						assume(prev != mi)
					}
					m.ID = json.RawMessage(calls[mi].id)
					m.R = json.RawMessage("1")
				} else {
					m.M = "req"
				}
			case 1: // late / duplicate / unsolicited reply
				t := nondetToken("lateid")
				k := tokKind(t)
				assume(k == tkNumber || k == tkString)
				m.ID = t
				if nondetBool("late-error") {
					m.E = &Error{Code: Code(nondetInt32("latecode")), Message: "late"}
				} else {
					m.R = json.RawMessage("2")
				}
			case 2:
				m.M = "req"
				if nondetBool("req-has-id") {
					m.ID = json.RawMessage("5")
				}
			}
			batch = append(batch, m)
			match = append(match, mi)
		}
		s.mu.Lock()
		keep := s.filterBatchLocked(batch)
		s.mu.Unlock()
		nkeep := 0
		for i, m := range batch {
			switch {
			case match[i] >= 0:
				c := calls[match[i]]
				vassert(s.call[c.id] == nil && len(c.p.ch) == 1, "C09: a reply completes exactly the callback whose id it bears")
				got := <-c.p.ch
				vassert(got == m, "C09: ... with that very reply")
				reach("reply-matched")
			case m.M != "":
				vassert(nkeep < len(keep) && keep[nkeep] == m, "requests pass the filter in order")
				nkeep++
			default:
				// unmatched reply
				if push {
					reach("late-reply-dropped")
				} else {
					vassert(nkeep < len(keep) && keep[nkeep] == m, "without push an unexpected reply is answered as an invalid request")
					nkeep++
				}
			}
		}
		vassert(len(keep) == nkeep, "C09: a late, duplicate or unsolicited reply completes nothing and is not passed on to be answered")
		for i, c := range calls {
			hit := false
			for _, mi := range match {
				if mi == i {
					hit = true
				}
			}
			if !hit {
				vassert(s.call[c.id] == c.p && len(c.p.ch) == 0, "C09: callbacks not addressed by the batch are untouched")
			}
		}
		vassert(ch.sends == 0, "filtering replies transmits nothing")
	case 3: // a callback's context ends (waitCallback), possibly after its reply
		if len(calls) == 0 {
			return
		}
		c := calls[nondetChoice("which", len(calls))]
		answered := nondetBool("answered")
		if answered {
			s.mu.Lock()
			s.filterBatchLocked(jmessages{{ID: json.RawMessage(c.id), R: json.RawMessage("1")}})
			s.mu.Unlock()
		}
		c.cancel()
		s.waitCallback(c.ctx, c.id, c.p)
		vassert(s.call[c.id] == nil, "C09: a callback whose context ended is no longer outstanding")
		vassert(len(c.p.ch) == 1, "C09: exactly one completion per callback")
		c.p.wait()
		if answered {
			vassert(c.p.err == nil, "C09: the reply wins when it arrived first")
			reach("ctx-too-late")
		} else {
			vassert(c.p.err != nil && filterError(c.p.err) == context.Canceled, "C09: the callback ends with the context's own error")
			reach("ctx-ended")
		}
		for _, o := range calls {
			if o != c {
				vassert(s.call[o.id] == o.p && len(o.p.ch) == 0, "C09: other callbacks are untouched")
			}
		}
	}
	verifPushInv(s, "post-state")
}
