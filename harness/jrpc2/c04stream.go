//go:build verif

package jrpc2

import (
	"context"
	"encoding/json"
)

// Harness_C04_stream: a real NewClient (reader goroutine, one delivery goroutine
// per inbound record) with two concurrent Calls; the peer answers in a symbolic
// order and grouping, with a duplicate, an unknown id, a malformed member and a
// server-initiated request thrown in.  Each Call completes with the reply sent
// for its own id; no inbound record panics the client.
func Harness_C04_stream() {
	verifMapOrders(false)
	ch := newVerifChan(nil, true)
	cli := NewClient(ch, nil)
	ch.owner = &cli.mu
	type outcome struct {
		rsp  *Response
		err  error
		done bool
	}
	var o [2]outcome
	for i := 0; i < 2; i++ {
		i := i
		go func() {
			o[i].rsp, o[i].err = cli.Call(context.Background(), "m"+verifItoa(i), nil)
			o[i].done = true
		}()
	}
	quiesce()
	vassert(len(ch.sent) == 2, "both requests are on the wire")
	// ids as the peer sees them
	var ids [2]json.RawMessage
	for _, b := range ch.sent {
		var w jmessages
		vassert(w.parseJSON(b) == nil && len(w) == 1, "request parses")
		for i := 0; i < 2; i++ {
			if w[0].M == "m"+verifItoa(i) {
				ids[i] = w[0].ID
			}
		}
	}
	vassert(ids[0] != nil && ids[1] != nil && !tokSame(ids[0], ids[1]), "C04: ids are never shared by two requests in flight")
	reply := func(i int) json.RawMessage {
		return tokObject([]string{"jsonrpc", "id", "result"}, []json.RawMessage{tokString("2.0"), ids[i], tokString("answer-" + verifItoa(i))})
	}
	noise := func() json.RawMessage {
		switch nondetChoice("noise", 4) {
		case 0: // unknown id
			return tokObject([]string{"jsonrpc", "id", "result"}, []json.RawMessage{tokString("2.0"), tokLit("99"), tokLit("1")})
		case 1: // not an object
			return tokLit("17")
		case 2: // a server-initiated notification (no handler configured)
			return tokObject([]string{"jsonrpc", "method"}, []json.RawMessage{tokString("2.0"), tokString("server.note")})
		}
		// a reply without an id
		return tokObject([]string{"jsonrpc", "result"}, []json.RawMessage{tokString("2.0"), tokLit("2")})
	}
	first := nondetChoice("first", 2)
	a, b := reply(first), reply(1-first)
	switch nondetChoice("grouping", 4) {
	case 0: // two single records
		ch.in <- a
		ch.in <- b
	case 1: // one array, with noise in between
		ch.in <- tokArray([]json.RawMessage{a, noise(), b})
	case 2: // a duplicate of the first reply before the second
		ch.in <- a
		ch.in <- a
		ch.in <- b
	case 3: // noise record first
		ch.in <- noise()
		ch.in <- tokArray([]json.RawMessage{b, a})
	}
	quiesce()
	for i := 0; i < 2; i++ {
		vassert(o[i].done && o[i].err == nil, "C04: each Call completes once its reply has arrived")
		vassert(o[i].rsp.ID() == string(ids[i]), "C04: ... with the response for its own id")
		vassert(tokSame(o[i].rsp.result, tokString("answer-"+verifItoa(i))), "C04: ... carrying exactly the result the peer sent for that id")
	}
	vassert(len(cli.pending) == 0, "no request stays pending")
	close(ch.in)
	cli.Close()
	quiesce()
	vassert(liveThreads() == "", "C05: no goroutine is left behind after Close")
	reach("stream-done")
}
