//go:build verif

package jrpc2

import (
	"context"
	"encoding/json"
)

// Harness_C03_order: a real started Server over the instrumented channel; two
// or three inbound records whose members are symbolically notifications or
// calls; every handler waits on a gate that an environment goroutine opens in
// a symbolic order (or, for calls, never).  Safety: a notification of an
// earlier record has exited before any handler of a later record is entered.
// Non-delay: a gated call never holds up later arrivals.
func Harness_C03_order() {
	log := &verifLog{gates: map[string]chan struct{}{}}
	mux := verifMap{}
	nrec := 2
	conc := 2
	if thorough() {
		conc = 1 + nondetChoice("conc", 2)
	}
	type mem struct {
		name string
		note bool
		rec  int
		id   string
	}
	cancelled := "" // id of a call cancelled by the concurrent CancelRequest (thorough)
	var mems []mem
	var records []json.RawMessage
	idn := 0
	for r := 0; r < nrec; r++ {
		n := 1
		if r == 0 {
			n = 1 + nondetChoice("n", 2)
		}
		var raws []json.RawMessage
		for i := 0; i < n; i++ {
			name := "m" + verifItoa(r) + verifItoa(i)
			note := nondetBool("note")
			id := ""
			if !note {
				idn++
				id = verifItoa(idn)
			}
			mems = append(mems, mem{name: name, note: note, rec: r, id: id})
			mux[name] = log.handler(name, nil, nil)
			log.gates[name] = make(chan struct{})
			raws = append(raws, verifReq(id, name))
		}
		if n == 1 {
			records = append(records, raws[0])
		} else {
			records = append(records, tokArray(raws))
		}
	}
	s := NewServer(mux, &ServerOptions{Concurrency: conc})
	ch := newVerifChan(s.mu, false)
	s.Start(ch)
	for _, rec := range records {
		ch.in <- rec
	}
	// environment: open the gates of all notifications in a symbolic order;
	// calls stay gated (a running call must not delay later arrivals)
	go func() {
		var todo []string
		for _, m := range mems {
			if m.note {
				todo = append(todo, m.name)
			}
		}
		for len(todo) > 0 {
			k := 0
			if len(todo) > 1 {
				k = nondetChoice("open", len(todo))
			}
			close(log.gates[todo[k]])
			todo = append(todo[:k], todo[k+1:]...)
			vyield()
		}
	}()
	// thorough tier: concurrent CancelRequest / push activity while dispatch is going on
	if thorough() {
		switch nondetChoice("concurrent-activity", 3) {
		case 1:
			cancelled = verifItoa(1 + nondetChoice("cancel-id", 2))
			go s.CancelRequest(cancelled)
		case 2:
			go s.Notify(context.Background(), "push", nil) // push is off: ErrPushUnsupported, nothing sent
		}
	}
	quiesce()
	reach("quiescent")

	// safety
	for _, a := range mems {
		if !a.note {
			continue
		}
		ra := log.find(a.name)
		finished := ra != nil && ra.exit > 0
		// a notification can only be pending if gated calls hold every slot
		vassert(finished || log.running >= conc, "every notification ran to completion unless the limit is exhausted by running calls")
		for _, b := range mems {
			if b.rec <= a.rec {
				continue
			}
			if rb := log.find(b.name); rb != nil {
				vassert(finished && ra.exit < rb.enter, "C03: a notification has returned before any later-arriving request starts")
				reach("ordered-pair")
			}
		}
	}
	// non-delay (bounded form): with all notifications done and only gated
	// calls running, every request has started unless the concurrency limit
	// is exhausted by running calls
	started := len(log.runs)
	expected := len(mems)
	for _, m := range mems {
		if m.id != "" && m.id == cancelled && log.find(m.name) == nil {
			expected-- // cancelled while waiting for a slot: never runs (C06)
		}
	}
	if log.running < conc {
		vassert(started == expected, "C03: a running call does not delay later arrivals below the concurrency limit")
	}
	vassert(log.maxRun <= conc, "C06: no more handlers at once than Concurrency")
	for _, m := range mems {
		vassert(log.count(m.name) <= 1, "C01: a handler runs at most once per request")
	}
	// unblock the calls so the run ends cleanly
	for _, m := range mems {
		if !m.note {
			close(log.gates[m.name])
		}
	}
	quiesce()
	for _, m := range mems {
		if m.id != "" && m.id == cancelled {
			vassert(log.count(m.name) <= 1, "C01/C06: a cancelled call's handler runs at most once")
		} else {
			vassert(log.count(m.name) == 1, "C01: every valid request's handler ran exactly once")
		}
	}
	// C01 across several inbound messages: every call got exactly one response
	// bearing its id, no notification got any, nothing was mixed up or lost
	seen := map[string]int{}
	total := 0
	for _, b := range ch.sent {
		out, ok := tokParse(b)
		vassert(ok, "every outbound message is valid JSON")
		elems, isArr := tokElems(out)
		if !isArr {
			elems = []json.RawMessage{out}
		}
		for _, e := range elems {
			id, _ := tokMember(e, "id")
			n, isInt := tokIntValue(id)
			vassert(isInt, "response ids are the calls' ids")
			seen[verifItoa(n)]++
			total++
		}
	}
	vassert(total == idn, "C01: one response per call in total, none for notifications")
	for k := 1; k <= idn; k++ {
		vassert(seen[verifItoa(k)] == 1, "C01: exactly one response for each call id")
	}
	reach("done")
}
