//go:build verif

package jrpc2

import (
	"context"
	"encoding/json"
	"io"
	"sync"

	"github.com/creachadair/jrpc2/channel"
)

// verifChan is the instrumented channel.Channel handed to servers and clients
// in threaded harnesses.  It checks the channel discipline (C10) on every
// call and records what was sent.
type verifChan struct {
	in            chan []byte   // inbound records (closed = peer closed: io.EOF)
	done          chan struct{} // closed by Close when closeUnblocks
	closeUnblocks bool
	sent          [][]byte
	closes        int
	inSend        int
	inRecv        int
	inClose       int
	owner         *sync.Mutex // the mutex that must be held during Send/Close
	recvFail      error       // a nil record in `in` makes Recv fail with this error
	sendFail      int         // fail the k-th Send (1-based); 0 = never
	sends         int
	afterClose    int           // Sends after Close
	sendGate      chan struct{} // when set, every Send waits for it
}

func newVerifChan(owner *sync.Mutex, closeUnblocks bool) *verifChan {
	return &verifChan{in: make(chan []byte, 4), done: make(chan struct{}), closeUnblocks: closeUnblocks, owner: owner}
}

func (c *verifChan) Send(b []byte) error {
	c.inSend++
	vassert(c.inSend == 1, "C10: two Send calls in progress at once")
	vassert(c.inClose == 0, "C10: Send overlaps Close")
	if c.owner != nil {
		vassert(lockHeldAny(c.owner), "C10: Send outside the owner's mutex")
	}
	// C10: every record is one complete JSON-RPC message
	tok, ok := tokParse(b)
	vassert(ok, "C10: a record passed to Send is valid JSON")
	if tokKind(tok) != tkObject {
		elems, isArr := tokElems(tok)
		vassert(isArr && len(elems) > 0, "C10: a record is a JSON object or a non-empty array")
		for _, e := range elems {
			vassert(tokKind(e) == tkObject, "C10: ... of objects")
		}
	}
	if c.sendGate != nil {
		<-c.sendGate // a stalled transport
	}
	vyield()
	c.sends++
	if c.closes > 0 {
		c.afterClose++
	}
	var err error
	if c.sends == c.sendFail {
		err = io.ErrClosedPipe
	} else {
		c.sent = append(c.sent, b)
	}
	c.inSend--
	return err
}

func (c *verifChan) Recv() ([]byte, error) {
	c.inRecv++
	vassert(c.inRecv == 1, "C10: two Recv calls in progress at once")
	defer func() { c.inRecv-- }()
	select {
	case b, ok := <-c.in:
		if !ok {
			return nil, io.EOF
		}
		if b == nil && c.recvFail != nil {
			return nil, c.recvFail
		}
		return b, nil
	case <-c.done:
		return nil, channel.ErrClosed
	}
}

func (c *verifChan) Close() error {
	c.inClose++
	vassert(c.inSend == 0, "C10: Close overlaps Send")
	if c.owner != nil {
		vassert(lockHeldAny(c.owner), "C10: Close outside the owner's mutex")
	}
	c.closes++
	vassert(c.closes == 1, "C10: Close called more than once per Start/NewClient")
	if c.closeUnblocks {
		close(c.done)
	}
	c.inClose--
	return nil
}

// ---- instrumented handlers -----------------------------------------------------

type verifRun struct {
	name    string
	id      string
	enter   int
	exit    int
	ctxDone bool // context observed cancelled at exit
}

// verifLog records handler entry/exit on the engine's logical clock.
type verifLog struct {
	runs    []*verifRun
	running int
	maxRun  int
	gates   map[string]chan struct{} // method -> gate the handler waits on (nil = none)
}

func (l *verifLog) handler(name string, result any, err error) Handler {
	return func(ctx context.Context, req *Request) (any, error) {
		r := &verifRun{name: name, id: req.ID(), enter: vclock()}
		l.runs = append(l.runs, r)
		l.running++
		if l.running > l.maxRun {
			l.maxRun = l.running
		}
		if g := l.gates[name]; g != nil {
			select {
			case <-g:
			case <-ctx.Done():
			}
		}
		r.ctxDone = ctx.Err() != nil
		l.running--
		r.exit = vclock()
		return result, err
	}
}

func (l *verifLog) find(name string) *verifRun {
	for _, r := range l.runs {
		if r.name == name {
			return r
		}
	}
	return nil
}

func (l *verifLog) count(name string) int {
	n := 0
	for _, r := range l.runs {
		if r.name == name {
			n++
		}
	}
	return n
}

type verifMap map[string]Handler

func (m verifMap) Assign(_ context.Context, method string) Handler { return m[method] }

// verifReq builds the JSON text of a request (id == "" for a notification).
func verifReq(id, method string) json.RawMessage {
	keys := []string{"jsonrpc", "method"}
	vals := []json.RawMessage{tokString("2.0"), tokString(method)}
	if id != "" {
		keys = append(keys, "id")
		vals = append(vals, tokLit(id))
	}
	return tokObject(keys, vals)
}
