//go:build verif

package jrpc2

import (
	"encoding/json"
	"errors"
	"io"
)

func verifBadRecord(kind int) json.RawMessage {
	switch kind {
	case 0:
		t := nondetToken("garbage")
		assume(tokKind(t) == tkInvalid)
		return t
	case 1:
		return tokArray(nil) // empty batch
	}
	// a member that is not a valid request: wrong version, no id
	return tokObject([]string{"jsonrpc", "method"}, []json.RawMessage{tokString("1.0"), tokString("n0")})
}

// Harness_C08_run: traffic, then one stop cause at a symbolic point, late
// records after the stop, WaitStatus, restart.
func Harness_C08_run() {
	verifMapOrders(false)
	log := &verifLog{gates: map[string]chan struct{}{}}
	mux := verifMap{}
	noteNames := []string{"note", "note1", "note2", "note3"} // the i-th notification sent calls noteNames[i]
	for _, name := range append([]string{"call", "n0", "again"}, noteNames...) {
		mux[name] = log.handler(name, nil, nil)
	}
	log.gates["call"] = make(chan struct{})
	gateNote := nondetBool("gate-note")
	if gateNote {
		g := make(chan struct{})
		for _, name := range noteNames {
			log.gates[name] = g
		}
	}
	s := NewServer(mux, &ServerOptions{Concurrency: 2, AllowPush: nondetBool("push")})
	closeUnblocks := nondetBool("close-unblocks-recv")
	ch := newVerifChan(s.mu, closeUnblocks)
	ch.in = make(chan []byte, 8)
	s.Start(ch)

	// traffic before the stop
	sentCall := nondetBool("send-call")
	if sentCall {
		ch.in <- verifReq("1", "call")
	}
	nnotes := nondetChoice("notes", 3)
	if gateNote && nnotes == 2 {
		// the first runs (gated), the second waits at the barrier, further ones stay queued
		nnotes += nondetChoice("queued-notes", 3)
	}
	// each notification as a single object or as a one-element batch
	notesAsBatches := nnotes > 0 && nondetBool("notes-as-batches")
	noteID := ""
	if nondetBool("notes-spell-null-id") {
		noteID = "null" // "id":null counts as absent: still a notification
	}
	for i := 0; i < nnotes; i++ {
		if notesAsBatches {
			ch.in <- tokArray([]json.RawMessage{verifReq(noteID, noteNames[i])})
		} else {
			ch.in <- verifReq(noteID, noteNames[i])
		}
	}
	if nondetBool("bad-before") {
		ch.in <- verifBadRecord(nondetChoice("badkind", 3))
	}
	// a batch whose (gated) notification is followed by another request
	// (a call, or - a batch of notifications only - another notification)
	mixed := gateNote && nnotes == 0 && nondetBool("mixed-batch")
	if mixed {
		if nondetBool("notes-only-batch") {
			ch.in <- tokArray([]json.RawMessage{verifReq("", "note"), verifReq("", "n0")})
		} else {
			ch.in <- tokArray([]json.RawMessage{verifReq("", "note"), verifReq("5", "again")})
		}
		nnotes = 1
	}
	quiesce()

	// the stop
	cause := nondetChoice("cause", 3)
	switch cause {
	case 0:
		s.Stop()
	case 1:
		close(ch.in) // peer closed: io.EOF
	case 2:
		ch.recvFail = errors.New("transport failed")
		ch.in <- nil
	}
	quiesce()
	vassert(ch.closes == 1, "C08/C10: each stop cause closes the channel exactly once")

	// a record that arrives after Stop on a channel whose Recv still delivers
	late := cause == 0 && !closeUnblocks && nondetBool("late-record")
	if late {
		switch nondetChoice("latekind", 3) {
		case 0:
			ch.in <- verifReq("7", "again")
		case 1:
			ch.in <- verifReq("", "again")
		case 2:
			ch.in <- verifBadRecord(nondetChoice("latebad", 3))
		}
		quiesce()
		reach("late-record")
	}
	if cause == 0 && !closeUnblocks {
		close(ch.in) // eventually the peer goes away and the reader ends
	}

	var stat ServerStatus
	waited := false
	waitedAt := 0
	go func() {
		stat = s.WaitStatus()
		waitedAt = vclock()
		waited = true
	}()
	quiesce()
	if sentCall || (gateNote && nnotes > 0) {
		vassert(!waited || log.running == 0, "C08: WaitStatus returns only after every handler has returned")
	}
	// let the gated handlers go (a cancelled call handler returns by itself)
	if gateNote {
		close(log.gates["note"])
	}
	quiesce()
	vassert(waited, "C08: WaitStatus returns once the server has stopped and its handlers are done")
	for _, r := range log.runs {
		vassert(r.exit > 0 && r.exit < waitedAt, "C08: every handler has returned before WaitStatus returns")
	}
	switch cause {
	case 0:
		vassert(stat.Stopped && !stat.Closed && stat.Err == nil, "C08: Stop is reported as Stopped")
	case 1:
		vassert(stat.Closed && !stat.Stopped && stat.Err == nil, "C08: peer close is reported as Closed")
	case 2:
		vassert(!stat.Closed && !stat.Stopped && stat.Err != nil, "C08: a channel failure is reported as its error")
	}
	if r := log.find("call"); r != nil {
		vassert(r.ctxDone, "C08: an in-flight call handler has seen its context cancelled")
		reach("call-cancelled")
	}
	ran := 0
	for _, name := range noteNames {
		vassert(log.count(name) <= 1, "C08: a notification is handed to its handler once")
		ran += log.count(name)
	}
	vassert(ran == nnotes, "C08: every valid notification received before the stop has been handed to its handler")
	if !mixed {
		// ... one after the other, in arrival order (C03 holds across the stop)
		for i := 1; i < nnotes; i++ {
			a, b := log.find(noteNames[i-1]), log.find(noteNames[i])
			vassert(a != nil && b != nil && a.exit < b.enter, "C03/C08: notifications retained across the stop still run in arrival order, one after the other")
		}
	}
	vassert(len(s.used) == 0, "C08: no reservation survives the stop")

	// restart on a fresh channel
	ch2 := newVerifChan(s.mu, true)
	s.Start(ch2)
	ch2.in <- verifReq("1", "again")
	quiesce()
	vassert(len(ch2.sent) == 1, "C08: after WaitStatus the same server serves normally on a fresh channel")
	close(ch2.in)
	st2 := s.WaitStatus()
	vassert(st2.Closed, "C08: the restarted server stops cleanly")
	quiesce() // a goroutine past its last synchronisation may still have to return
	vassert(liveThreads() == "", "C08: no goroutine is left behind")
	reach("restarted")
}

var _ = io.EOF
