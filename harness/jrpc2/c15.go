//go:build verif

package jrpc2

import (
	"encoding/json"
)

type verifParams struct {
	X json.RawMessage `json:"x"`
	Y string          `json:"y"`
}

type verifStrictParams struct {
	X json.RawMessage `json:"x"`
	Y string          `json:"y"`
}

func (*verifStrictParams) DisallowUnknownFields() {}

// Harness_C15_unmarshal: Request.UnmarshalParams.
func Harness_C15_unmarshal() {
	r := &Request{method: "m"}
	hasParams := nondetBool("has-params")
	var xtok json.RawMessage
	ystr := nondetString("y", 2)
	extra := false
	if hasParams {
		keys := []string{}
		vals := []json.RawMessage{}
		if nondetBool("has-x") {
			xtok = nondetToken("x")
			assume(tokKind(xtok) != tkInvalid && tokKind(xtok) != tkNull)
			keys, vals = append(keys, "x"), append(vals, xtok)
		}
		keys, vals = append(keys, "y"), append(vals, tokString(ystr))
		if extra = nondetBool("unknown-field"); extra {
			keys, vals = append(keys, "zzz"), append(vals, tokLit("1"))
		}
		r.params = tokObject(keys, vals)
	}
	switch nondetChoice("target", 4) {
	case 0: // *json.RawMessage: a copy, never an error
		var raw json.RawMessage
		err := r.UnmarshalParams(&raw)
		vassert(err == nil, "C15: a RawMessage target never fails")
		if hasParams {
			vassert(tokSame(raw, r.params), "C15: a RawMessage target receives the params")
		} else {
			vassert(raw == nil, "C15: empty params leave the target unmodified")
		}
		reach("raw")
	case 1: // ordinary struct: unknown fields ignored
		v := verifParams{Y: "before"}
		err := r.UnmarshalParams(&v)
		vassert(err == nil, "C15: unknown fields are ignored by default")
		if hasParams {
			vassert(v.Y == ystr && tokSame(v.X, xtok), "C15: the target holds what encoding/json decodes from the params")
		} else {
			vassert(v.Y == "before" && v.X == nil, "C15: empty params leave the target unmodified")
		}
		reach("struct")
	case 2: // type with DisallowUnknownFields: strict
		v := verifStrictParams{Y: "before"}
		err := r.UnmarshalParams(&v)
		if hasParams && extra {
			vassert(err != nil && ErrorCode(err) == InvalidParams, "C15: unknown fields are rejected with InvalidParams when the type disallows them")
			reach("strict-rejected")
		} else {
			vassert(err == nil, "C15: known fields only are accepted")
			if hasParams {
				vassert(v.Y == ystr && tokSame(v.X, xtok), "C15: strict decoding yields the same values")
			}
			reach("strict-ok")
		}
	case 3: // StrictFields wrapper around an ordinary struct
		v := verifParams{Y: "before"}
		err := r.UnmarshalParams(StrictFields(&v))
		if hasParams && extra {
			vassert(err != nil && ErrorCode(err) == InvalidParams, "C15: StrictFields rejects unknown fields with InvalidParams")
			reach("wrapper-rejected")
		} else {
			vassert(err == nil, "C15: StrictFields accepts known fields")
			reach("wrapper-ok")
		}
	}
	// params of the wrong JSON kind for the target
	if hasParams {
		bad := &Request{method: "m", params: tokArray([]json.RawMessage{tokLit("1")})}
		var v verifParams
		err := bad.UnmarshalParams(&v)
		vassert(err != nil && ErrorCode(err) == InvalidParams, "C15: params that do not fit the target are InvalidParams")
	}
}
