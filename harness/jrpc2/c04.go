//go:build verif

package jrpc2

import (
	"context"
	"encoding/json"
	"errors"
	"io"
	"strconv"
	"sync"
)

type verifPend struct {
	n        int64
	id       string
	p        *Response
	pctx     context.Context
	cancel   func()
	deadline bool
}

type verifClientEnv struct {
	c        *Client
	ch       *verifChan
	pend     []*verifPend
	cancels  []string // ids for which OnCancel ran
	hookLock bool     // a hook ran while c.mu was held
	stops    []error
}

// verifClientState builds a client in an arbitrary state allowed by the
// invariant: 0..2 pending requests with distinct decimal ids below nextID,
// each with an empty, unsettled response slot.
func verifClientState(stopped bool) *verifClientEnv {
	env := &verifClientEnv{}
	cbctx, cbcancel := context.WithCancel(context.Background())
	c := &Client{done: new(sync.WaitGroup), log: func(string, ...any) {}, cbctx: cbctx, cbcancel: cbcancel,
		pending: make(map[string]*Response)}
	c.chook = func(cl *Client, r *Response) {
		if lockHeld(&cl.mu) {
			env.hookLock = true
		}
		env.cancels = append(env.cancels, r.ID())
	}
	c.shook = func(cl *Client, err error) {
		if lockHeld(&cl.mu) {
			env.hookLock = true
		}
		env.stops = append(env.stops, err)
	}
	env.c = c
	env.ch = newVerifChan(&c.mu, true)
	c.nextID = nondetInt64("nextid")
	assume(c.nextID >= 1 && c.nextID < 1<<40)
	if !stopped {
		c.ch = env.ch
	} else {
		c.err = errClientStopped
	}
	maxp := 3
	if thorough() {
		maxp = 4
	}
	n := nondetChoice("npending", maxp)
	for i := 0; i < n; i++ {
		k := nondetInt64("pending-id")
		assume(k >= 1 && k < c.nextID)
		for _, o := range env.pend {
			assume(o.n != k)
		}
		id := strconv.FormatInt(k, 10)
		// the caller's context: plain, or one that ends by deadline
		base := context.Background()
		end := func() {}
		deadline := nondetBool("deadline-context")
		if deadline {
			base, end = verifDeadlineCtx(base)
		}
		pctx, p := newPending(base, id)
		c.pending[id] = p
		v := &verifPend{n: k, id: id, p: p, pctx: pctx, cancel: p.cancel, deadline: deadline}
		if deadline {
			v.cancel = end
		}
		env.pend = append(env.pend, v)
	}
	return env
}

// verifClientInv: every pending request has an empty slot; key == slot id.
func (env *verifClientEnv) inv(what string) {
	for id, p := range env.c.pending {
		vassert(p.id == id, what+": pending key equals the request's id")
		vassert(len(p.ch) == 0, what+": a pending request has not been completed")
	}
	vassert((env.c.ch == nil) == (env.c.err != nil), what+": channel is nil exactly when stopped")
}

func (env *verifClientEnv) isPending(v *verifPend) bool { return env.c.pending[v.id] == v.p }

// Harness_C04_step: one client step from an arbitrary valid state.
func Harness_C04_step() {
	verifMapOrders(false) // only library-made (valid) messages are parsed here
	step := nondetChoice("step", 5)
	env := verifClientState(step == 4 && nondetBool("stopped"))
	c := env.c
	env.inv("pre-state")
	switch step {
	case 0: // a reply (or any other inbound member) is delivered
		m := &jmessage{}
		target := -1
		switch k := nondetChoice("idform", 4); k {
		case 0: // the id of a pending request, verbatim
			if len(env.pend) == 0 {
				return
			}
			target = nondetChoice("which", len(env.pend))
			m.ID = json.RawMessage(env.pend[target].id)
		case 1: // some other id text
			t := nondetToken("otherid")
			assume(tokKind(t) != tkInvalid && tokKind(t) != tkNull)
			m.ID = t
		case 2:
			m.ID = json.RawMessage("null")
		}
		shape := nondetChoice("shape", 4)
		var wantR json.RawMessage
		var wantE *Error
		switch shape {
		case 0:
			m.R = nondetToken("result")
			assume(tokKind(m.R) != tkInvalid)
			wantR = m.R
		case 1:
			m.E = &Error{Code: Code(nondetInt32("code")), Message: "peer error"}
			wantE = m.E
		case 2:
			m.M = "server.request" // request-shaped: not a reply
		case 3:
			m.R = nondetToken("result2")
			m.err = &Error{Code: InvalidRequest, Message: "malformed reply"}
			wantE = m.err
		}
		c.mu.Lock()
		c.deliverLocked(m)
		c.mu.Unlock()
		for i, v := range env.pend {
			if i == target && shape != 2 {
				vassert(!env.isPending(v), "C04: the matched request leaves the pending set")
				vassert(len(v.p.ch) == 1, "C04/C05: exactly one completion is delivered to the matched request")
				v.p.wait() // must not panic (mismatched id)
				vassert(tokSame(v.p.result, wantR), "C04: the request completes with the result the peer sent for its id")
				if wantE != nil {
					vassert(v.p.err != nil && v.p.err.Code == wantE.Code, "C04: the request completes with the error the peer sent for its id")
				} else {
					vassert(v.p.err == nil, "C04: a result reply carries no error")
				}
				reach("delivered")
			} else {
				vassert(env.isPending(v) && len(v.p.ch) == 0, "C04: a reply touches no request but the one whose id it bears")
			}
		}
		if target < 0 {
			reach("unknown-id")
		}
		vassert(len(env.ch.sent) == 0, "delivering a reply transmits nothing")
	case 1: // Batch (Call and Notify are the one-element cases): 1..3 specs
		maxs := 3
		if thorough() {
			maxs = 4
		}
		n := 1 + nondetChoice("n", maxs)
		var specs []Spec
		for i := 0; i < n; i++ {
			specs = append(specs, Spec{Method: "m", Notify: nondetBool("notify")})
		}
		if nondetBool("sendfails") {
			env.ch.sendFail = 1
		}
		before := len(c.pending)
		var rsps []*Response
		var berr error
		returned := false
		go func() {
			rsps, berr = c.Batch(context.Background(), specs)
			returned = true
		}()
		quiesce()
		if env.ch.sendFail == 1 {
			vassert(returned && berr != nil && rsps == nil, "C05: a failed transmission is reported at once")
			vassert(len(c.pending) == before, "C05: a failed transmission registers no pending request")
			reach("send-failed")
			return
		}
		vassert(len(env.ch.sent) == 1, "one outbound message per Batch")
		// what went on the wire, parsed back
		var wire jmessages
		vassert(wire.parseJSON(env.ch.sent[0]) == nil && len(wire) == n, "the batch on the wire has one member per spec")
		ncalls := 0
		for i, w := range wire {
			vassert(w.err == nil && w.M == "m", "each member is a valid request for the spec's method")
			if specs[i].Notify {
				vassert(fixID(w.ID) == nil, "a notification has no id")
				continue
			}
			ncalls++
			id := string(w.ID)
			p := c.pending[id]
			vassert(p != nil && p.id == id, "each call is registered under the id that is on the wire")
			for _, v := range env.pend {
				vassert(id != v.id, "C04: a new request never shares its id with a request in flight")
			}
			for j := 0; j < i; j++ {
				if !specs[j].Notify {
					vassert(id != string(wire[j].ID), "C04: two requests of one batch have different ids")
				}
			}
			k, isInt := tokIntValue(w.ID)
			vassert(isInt && int64(k) >= 1 && int64(k) < c.nextID, "C04: ids handed out stay below the id counter (so the next request cannot collide)")
		}
		vassert(len(c.pending) == before+ncalls, "exactly the calls of the batch became pending")
		if ncalls == 0 {
			vassert(returned && berr == nil && len(rsps) == 0, "a batch of notifications returns at once with no responses")
			reach("notes-only")
		} else {
			vassert(!returned, "Batch waits for the replies to its calls")
			// answer every call - in spec order or in reverse, all at once or one
			// record at a time with the client running in between - and let
			// Batch return
			forward := nondetBool("replies-in-spec-order")
			separately := nondetBool("replies-in-separate-records")
			for k := 0; k < n; k++ {
				i := n - 1 - k
				if forward {
					i = k
				}
				if !specs[i].Notify {
					c.mu.Lock()
					c.deliverLocked(&jmessage{ID: wire[i].ID, R: json.RawMessage(verifItoa(i))})
					c.mu.Unlock()
					if separately {
						quiesce()
						vassert(len(env.cancels) == 0, "C05: OnCancel never runs for a request whose context did not end")
					}
				}
			}
			quiesce()
			vassert(returned && berr == nil && len(rsps) == ncalls, "Batch returns one response per call")
			k := 0
			for i := range specs {
				if specs[i].Notify {
					continue
				}
				vassert(rsps[k].id == string(wire[i].ID), "C04: Batch responses are in spec order, notifications omitted")
				vassert(tokSame(rsps[k].result, json.RawMessage(verifItoa(i))), "C04: each response carries the reply sent for its own id")
				k++
			}
			reach("sent")
		}
	case 2: // the context of a pending request ends (cancel / deadline), watcher runs
		if len(env.pend) == 0 {
			return
		}
		v := env.pend[nondetChoice("which", len(env.pend))]
		already := nondetBool("already-answered")
		if already {
			c.mu.Lock()
			c.deliverLocked(&jmessage{ID: json.RawMessage(v.id), R: json.RawMessage("1")})
			c.mu.Unlock()
		}
		v.cancel()
		c.waitComplete(v.pctx, v.id, v.p)
		vassert(!env.isPending(v), "C05: a request whose context ended is no longer pending")
		vassert(len(v.p.ch) <= 1, "C05: at most one completion per request")
		v.p.wait()
		if already {
			vassert(v.p.err == nil, "C05: the reply wins when it was delivered first")
			vassert(len(env.cancels) == 0, "C05: OnCancel never runs for an answered request")
			reach("too-late-cancel")
		} else {
			if v.deadline {
				vassert(v.p.err != nil && filterError(v.p.err) == context.DeadlineExceeded, "C05: the call ends with the context's own error (deadline)")
				reach("deadline")
			} else {
				vassert(v.p.err != nil && filterError(v.p.err) == context.Canceled, "C05: the call ends with the context's own error")
			}
			vassert(len(env.cancels) == 1 && env.cancels[0] == v.id, "C05: OnCancel runs exactly once for a request that ended without a reply")
			reach("cancelled")
		}
		vassert(!env.hookLock, "C05: hooks run outside the client's lock")
		for _, o := range env.pend {
			if o != v {
				vassert(env.isPending(o) && len(o.p.ch) == 0 && o.pctx.Err() == nil, "C05: other requests are untouched")
			}
		}
	case 3: // stop (Close, EOF, channel failure), then stop again
		var cause error
		switch nondetChoice("cause", 3) {
		case 0:
			cause = errClientStopped
		case 1:
			cause = io.EOF
		case 2:
			cause = errors.New("channel failed")
		}
		c.mu.Lock()
		f := c.stopLocked(cause)
		c.mu.Unlock()
		f()
		vassert(env.ch.closes == 1, "C10: the channel is closed exactly once")
		vassert(c.ch == nil && c.err == cause, "C05: the first stop cause is recorded")
		for _, v := range env.pend {
			vassert(v.pctx.Err() != nil, "C05: stop ends the context of every pending request")
		}
		vassert(c.cbctx.Err() != nil, "C05: stop ends the callback context")
		vassert(len(env.stops) == 1 && env.stops[0] == cause, "C05: OnStop runs once with the first cause")
		c.mu.Lock()
		f2 := c.stopLocked(errors.New("second"))
		c.mu.Unlock()
		f2()
		vassert(env.ch.closes == 1 && c.err == cause && len(env.stops) == 1, "C05: stopping again changes nothing")
		vassert(!env.hookLock, "C05: OnStop runs outside the client's lock")
		// watchers of the stopped requests complete them with an error
		for _, v := range env.pend {
			c.waitComplete(v.pctx, v.id, v.p)
			v.p.wait()
			vassert(v.p.err != nil, "C05: a request pending at stop ends with an error")
		}
		// they ended without a reply: OnCancel runs exactly once for each
		vassert(len(env.cancels) == len(env.pend), "C05: OnCancel runs exactly once for each request that a stop ended without a reply")
		for _, v := range env.pend {
			n := 0
			for _, id := range env.cancels {
				if id == v.id {
					n++
				}
			}
			vassert(n == 1, "C05: OnCancel runs exactly once for each request that a stop ended without a reply")
		}
		vassert(!env.hookLock, "C05: OnCancel runs outside the client's lock")
		reach("stopped")
	case 4: // operations on a stopped client
		if c.err == nil {
			return
		}
		r, _ := c.req(context.Background(), "m", nil)
		rsps, err := c.send(context.Background(), jmessages{r})
		vassert(err != nil && rsps == nil, "C05: operations on a stopped client fail")
		vassert(len(env.ch.sent) == 0 && env.ch.sends == 0, "C05: a stopped client transmits nothing")
		reach("stopped-send")
	}
	env.inv("post-state")
}
