//go:build verif

package jrpc2

import (
	"context"
	"encoding/json"
)

type verifInflight struct {
	id     string
	ctx    context.Context
	cancel context.CancelFunc
}

// verifValidID: an arbitrary request id (any JSON string or number).
func verifValidID(tag string) string {
	t := nondetToken(tag)
	k := tokKind(t)
	assume(k == tkNumber || k == tkString)
	return string(t)
}

// verifHavocUsed puts the server into an arbitrary state that the reservation
// invariant allows: a set of in-flight calls with arbitrary distinct ids, each
// reserved with the cancel function of the context its handler holds.
func verifHavocUsed(s *Server) []*verifInflight {
	var g []*verifInflight
	maxi := 3
	if thorough() {
		maxi = 4
	}
	n := nondetChoice("ninflight", maxi)
	for i := 0; i < n; i++ {
		id := verifValidID("inflight-id")
		for _, o := range g {
			assume(o.id != id)
		}
		ctx, cancel := context.WithCancel(context.Background())
		s.used[id] = cancel
		g = append(g, &verifInflight{id: id, ctx: ctx, cancel: cancel})
	}
	return g
}

// verifInvC07: the reservation table is exactly the set of in-flight calls.
func verifInvC07(s *Server, g []*verifInflight, what string) {
	vassert(len(s.used) == len(g), what+": reserved ids are exactly the ids of in-flight calls")
	for _, f := range g {
		vassert(s.used[f.id] != nil, what+": an in-flight call keeps its id reserved")
	}
}

// Harness_C07_step: one step from an arbitrary invariant-satisfying state.
func Harness_C07_step() {
	log := &verifLog{gates: map[string]chan struct{}{}}
	// the failing handler's error code is arbitrary (also -32600 / -32700 / -32601)
	mux := verifMap{"ok": log.handler("ok", nil, nil), "err": log.handler("err", nil, Errorf(Code(nondetInt32("handler-code")), "failed"))}
	s := NewServer(mux, &ServerOptions{Concurrency: 4, DisableBuiltin: nondetBool("nobuiltin")})
	rec := &verifRecorder{}
	s.ch = rec
	s.work = make(chan struct{}, 1)
	g := verifHavocUsed(s)
	verifInvC07(s, g, "pre-state")

	switch nondetChoice("step", 3) {
	case 0:
		// a whole batch arrives, is dispatched, its handlers return, its reply is sent
		maxb := 2
		if thorough() {
			maxb = 2 // three-member batches did not finish in 25 minutes
		}
		n := 1 + nondetChoice("n", maxb)
		var batch jmessages
		var ids []string
		for i := 0; i < n; i++ {
			m := &jmessage{batch: n > 1}
			id := ""
			switch nondetChoice("idform", 3) {
			case 1:
				id = verifValidID("member-id")
				m.ID = json.RawMessage(id)
			case 2:
				m.ID = json.RawMessage("null") // spelled-out null id: counts as absent
			}
			switch nondetChoice("method", 5) {
			case 0:
				m.M = "ok"
			case 1:
				m.M = "err"
			case 2:
				m.M = "nosuch"
			case 3:
				m.M = "rpc.reserved"
			case 4:
				m.M = "" // structurally empty method
			}
			if nondetBool("invalid") {
				m.err = &Error{Code: InvalidRequest, Message: "deferred validation error"}
			}
			batch = append(batch, m)
			ids = append(ids, id)
		}
		s.mu.Lock()
		ts := s.checkAndAssignLocked(batch)
		s.mu.Unlock()
		// classification of duplicates
		for i, t := range ts {
			if ids[i] == "" {
				continue
			}
			dupPre := false
			for _, f := range g {
				if f.id == ids[i] {
					dupPre = true
				}
			}
			dupBatch := false
			for j := range ts {
				if j != i && ids[j] == ids[i] {
					dupBatch = true
				}
			}
			if dupPre || dupBatch {
				vassert(t.err != nil && ErrorCode(t.err) == InvalidRequest, "a request whose id is in flight (or repeated in its batch) is rejected with -32600")
				vassert(t.m == nil, "a rejected duplicate gets no handler")
				reach("duplicate-rejected")
			}
		}
		for _, f := range g {
			vassert(f.ctx.Err() == nil, "dispatching other requests does not cancel an in-flight call")
		}
		// the batch is in flight now (no reply sent yet): every accepted call's id
		// is reserved, whatever the outcome of the call is going to be - also
		// when no handler was found for it (its reply waits for the batch)
		for i, t := range ts {
			if ids[i] == "" || batch[i].err != nil || batch[i].M == "" {
				continue
			}
			if t.err != nil && ErrorCode(t.err) == InvalidRequest {
				continue // rejected as a duplicate
			}
			vassert(s.used[ids[i]] != nil, "C07: the id of a call whose reply has not been sent yet is reserved (method-not-found included)")
		}
		// handlers run and return
		for _, t := range ts {
			if t.err == nil {
				t.val, t.err = s.invoke(t.ctx, t.m, t.hreq)
			}
		}
		rsps := ts.responses(s.rpcLog)
		s.deliver(rsps, rec, 0)
		for _, f := range g {
			vassert(f.ctx.Err() == nil, "completion of other requests does not cancel an in-flight call")
		}
		verifInvC07(s, g, "after the batch's reply was sent")
		reach("batch-done")
	case 1:
		// CancelRequest while the target's handler is still running
		x := verifValidID("cancel-target")
		s.CancelRequest(x)
		for _, f := range g {
			if f.id == x {
				vassert(f.ctx.Err() != nil, "CancelRequest cancels the call it names")
				reach("cancel-hit")
			} else {
				vassert(f.ctx.Err() == nil, "CancelRequest does not cancel any other call")
			}
		}
		// the cancelled call's handler has not returned yet: still in flight
		verifInvC07(s, g, "after CancelRequest (handler still running)")
		reach("cancel-done")
	case 2:
		s.mu.Lock()
		s.stopLocked(errServerStopped)
		s.mu.Unlock()
		for _, f := range g {
			vassert(f.ctx.Err() != nil, "stop cancels every in-flight call")
		}
		vassert(len(s.used) == 0, "stop releases every reservation")
		reach("stop-done")
	}
}
