//go:build verif

package jrpc2

import (
	"context"
	"encoding/json"
)

// verifAnyMessage builds a protocol message of arbitrary valid content.
func verifAnyMessage(tag string) *jmessage {
	j := &jmessage{}
	if nondetBool(tag + ".hasid") {
		j.ID = json.RawMessage(verifValidID(tag + ".id"))
	}
	switch nondetChoice(tag+".shape", 3) {
	case 0: // request or notification
		j.M = nondetString(tag+".method", 2)
		assume(j.M != "")
		if nondetBool(tag + ".hasparams") {
			j.P = nondetToken(tag + ".params")
			k := tokKind(j.P)
			assume(k == tkArray || k == tkObject)
			assume(noControlBytes(j.P)) // produced by json.Marshal in marshalParams/pushReq
		}
	case 1: // result
		j.R = nondetToken(tag + ".result")
		assume(tokKind(j.R) != tkInvalid)
		assume(noControlBytes(j.R)) // produced by json.Marshal in invoke
	case 2: // error
		j.E = &Error{Code: Code(nondetInt32(tag + ".code")), Message: nondetString(tag+".msg", 2)}
		if nondetBool(tag + ".hasdata") {
			j.E.Data = nondetToken(tag + ".data") // may be pretty-printed: json.Marshal(j.E) compacts it
			assume(tokKind(j.E.Data) != tkInvalid)
		}
	}
	return j
}

func verifSameMessage(a, b *jmessage, what string) {
	vassert(tokSame(fixID(a.ID), fixID(b.ID)), what+": id parses back to the same value")
	vassert(a.M == b.M, what+": method parses back")
	vassert(tokSame(a.P, b.P), what+": params parse back")
	vassert(tokSame(a.R, b.R), what+": result parses back")
	vassert((a.E == nil) == (b.E == nil), what+": error presence parses back")
	if a.E != nil && b.E != nil {
		vassert(a.E.Code == b.E.Code && a.E.Message == b.E.Message && tokSame(a.E.Data, b.E.Data), what+": error code, message and data parse back")
	}
}

// Harness_C13_roundtrip: jmessage(s) -> real toJSON -> real parseJSON.
func Harness_C13_roundtrip() {
	verifMapOrders(false) // valid messages: key order is irrelevant to the outcome
	n := 1
	if thorough() {
		n = 1 + nondetChoice("n", 2)
	}
	batch := n > 1 || nondetBool("batchflag")
	var ms jmessages
	for i := 0; i < n; i++ {
		m := verifAnyMessage("m" + verifItoa(i))
		m.batch = batch
		ms = append(ms, m)
	}
	bits, err := ms.toJSON()
	vassert(err == nil, "encoding succeeds for marshalable content")
	vassert(noControlBytes(bits), "the library writes no raw control bytes: the message is one line")
	tok, ok := tokParse(bits)
	vassert(ok, "emitted text is valid JSON")
	if batch {
		_, isArr := tokElems(tok)
		vassert(isArr, "a batch is an array")
	} else {
		vassert(tokKind(tok) == tkObject, "a single message is an object")
		ver, has := tokMember(tok, "jsonrpc")
		vs, isStr := tokStringValue(ver)
		vassert(has && isStr && vs == "2.0", `carries "jsonrpc":"2.0"`)
	}
	var back jmessages
	perr := back.parseJSON(bits)
	vassert(perr == nil, "the library's own parser accepts it")
	vassert(len(back) == n, "one parsed message per encoded message")
	for i := range ms {
		vassert(back[i].err == nil, "a message the library emits is structurally valid")
		vassert(back[i].batch == batch, "batch flag follows the array form")
		verifSameMessage(ms[i], back[i], "round trip")
	}
	reach("roundtrip")
}

// Harness_C13_producers: the real producers of outbound messages.
func Harness_C13_producers() {
	rec := &verifRecorder{}
	method := nondetString("method", 2)
	assume(method != "")
	var params any
	pk := nondetChoice("params", 3)
	var ptok json.RawMessage
	switch pk {
	case 1:
		ptok = nondetToken("ptok")
		k := tokKind(ptok)
		assume(k == tkArray || k == tkObject)
		params = ptok
	case 2:
		params = nondetString("pstr", 1) // not an array/object: must be refused
	}
	switch nondetChoice("producer", 3) {
	case 0: // client request / notification
		c := &Client{log: func(string, ...any) {}, pending: make(map[string]*Response), nextID: int64(nondetInt("nextid")), ch: rec}
		assume(c.nextID >= 1)
		var req *jmessage
		var err error
		if nondetBool("notify") {
			req, err = c.note(context.Background(), method, params)
		} else {
			req, err = c.req(context.Background(), method, params)
		}
		if pk == 2 {
			vassert(err != nil, "parameters that are not an array or object are refused")
			reach("bad-params")
			return
		}
		vassert(err == nil, "valid request is built")
		bits, err := jmessages{req}.toJSON()
		vassert(err == nil && noControlBytes(bits), "request is one line")
		var back jmessages
		vassert(back.parseJSON(bits) == nil && len(back) == 1 && back[0].err == nil, "request parses back as valid")
		verifSameMessage(req, back[0], "client request")
		vassert(back[0].M == method && tokSame(back[0].P, ptok), "method and params are the caller's")
		reach("client-request")
	case 1: // server push
		s := NewServer(verifMap{}, &ServerOptions{AllowPush: true, Concurrency: 1})
		s.ch = rec
		wantID := nondetBool("callback")
		if pk == 2 {
			params = nil
		}
		ctx, cancel := context.WithCancel(context.Background())
		rsp, err := s.pushReq(ctx, wantID, method, params)
		vassert(err == nil && len(rec.sent) == 1, "one message per push")
		vassert((rsp != nil) == wantID, "a response slot exists exactly for callbacks")
		vassert(noControlBytes(rec.sent[0]), "push is one line")
		var back jmessages
		vassert(back.parseJSON(rec.sent[0]) == nil && len(back) == 1 && back[0].err == nil, "push parses back as valid")
		vassert(back[0].M == method && tokSame(back[0].P, ptok), "push method and params")
		vassert((fixID(back[0].ID) != nil) == wantID, "id present exactly for callbacks")
		cancel()
		quiesce()
		reach("push")
	case 2: // Response.MarshalJSON with SetID (bridge path)
		r := &Response{id: verifValidID("rid")}
		if nondetBool("iserr") {
			r.err = &Error{Code: Code(nondetInt32("code")), Message: nondetString("msg", 1)}
		} else {
			r.result = nondetToken("result")
			assume(tokKind(r.result) != tkInvalid)
		}
		newID := verifValidID("newid")
		r.SetID(newID)
		bits, err := json.Marshal(r) // as the bridge does: the Marshaler's output is compacted
		vassert(err == nil && noControlBytes(bits), "response marshals to one line")
		var back jmessages
		vassert(back.parseJSON(bits) == nil && len(back) == 1, "response parses back")
		vassert(tokSame(back[0].ID, json.RawMessage(newID)), "SetID's id is the one on the wire, verbatim")
		vassert(tokSame(back[0].R, r.result), "result unchanged")
		vassert((back[0].E == nil) == (r.err == nil), "error presence unchanged")
		if r.err != nil {
			vassert(back[0].E.Code == r.err.Code && back[0].E.Message == r.err.Message, "error unchanged")
		}
		reach("response")
	}
}

// Harness_C13_parse: ParseRequests flags exactly the structurally invalid
// members, one entry per member, in order.
func Harness_C13_parse() {
	names := []string{"ok", "nosuch"}
	// thorough: the full member generator, as a single request and as a
	// one-member batch (two-member batches square the generator and did not
	// finish in 40 minutes: outside the claim, see C02_batch for pairs)
	n := 1
	batch := thorough() && nondetBool("batch")
	var ms []*verifMember
	var raws []json.RawMessage
	for i := 0; i < n; i++ {
		m := verifGenMember("m"+verifItoa(i), names)
		if m.nkeys > 2 || n > 1 {
			verifMapOrders(false)
		}
		ms = append(ms, m)
		raws = append(raws, m.raw)
	}
	var record json.RawMessage
	if batch {
		record = tokArray(raws)
	} else {
		record = raws[0]
	}
	out, err := ParseRequests(record)
	vassert(err == nil, "valid JSON is never a top-level error")
	vassert(len(out) == n, "one entry per member")
	for i, m := range ms {
		p := out[i]
		// a member without a method name is not rejected by the parser itself
		// (the server rejects it as empty method): only the parser-level defects
		parserInvalid := m.structurallyInvalid() && !(m.isObject && m.hasV && m.vClass == 0 &&
			(!m.hasID || m.idKind == tkString || m.idKind == tkNumber || m.idKind == tkNull) &&
			(!m.hasM || m.mClass == 1 || m.mClass == 3) && !(m.hasM && m.mClass == 0) &&
			(!m.hasP || m.pKind == tkArray || m.pKind == tkObject || m.pKind == tkNull) &&
			(!m.hasE || m.eClass != 2) && !m.hasX)
		if !m.structurallyInvalid() {
			vassert(p.Error == nil, "a valid member is not flagged")
			vassert(p.Method == m.method, "method of a valid member")
			vassert((p.ID == "") == m.idIsNullOrAbsent(), "id of a valid member (null counts as absent)")
			vassert(p.ToRequest() != nil, "a valid member converts to a request")
			reach("valid-member")
		} else if parserInvalid {
			vassert(p.Error != nil, "a structurally invalid member is flagged")
			vassert(p.Error.Code == ParseError || p.Error.Code == InvalidRequest, "with the code a server would answer")
			vassert(p.ToRequest() == nil, "an invalid member does not convert to a request")
			reach("invalid-member")
		}
	}
	// invalid JSON is a top-level error
	bad := nondetToken("bad")
	assume(tokKind(bad) == tkInvalid)
	_, err = ParseRequests(bad)
	vassert(err != nil, "text that is not valid JSON is a top-level error")
	reach("invalid-json")
}

// Harness_C13_padded: insignificant white space around a record changes
// neither how many entries ParseRequests reports nor what they are.
func Harness_C13_padded() {
	verifMapOrders(false)
	n := 1 + nondetChoice("n", 2)
	batch := n > 1 || nondetBool("batch")
	var raws []json.RawMessage
	for i := 0; i < n; i++ {
		raws = append(raws, verifReq(verifItoa(i+1), "m"+verifItoa(i)))
	}
	record := raws[0]
	if batch {
		record = tokArray(raws)
	}
	out, err := ParseRequests(verifPad("pad", record))
	vassert(err == nil, "padded valid JSON is never a top-level error")
	vassert(len(out) == n, "one entry per member, padded or not")
	for i, p := range out {
		vassert(p.Error == nil, "a valid member of a padded record is not flagged")
		vassert(p.Method == "m"+verifItoa(i), "method of a member of a padded record")
		vassert(p.ID == verifItoa(i+1), "id of a member of a padded record")
	}
	reach("padded")
}
