//go:build verif

package jrpc2

import (
	"encoding/json"
)

// expected outcome of one member
type verifExpect struct {
	respond  bool
	ownID    bool // reply carries the member's id (else null)
	isError  bool
	codes    []int // acceptable codes (for errors)
	anyError bool  // any integer code accepted (handler-defined)
}

var verifMethods = []string{"ok", "fail", "nosuch", "rpc.serverInfo", "rpc.other"}
var verifMethodsQuick = []string{"ok", "nosuch", "rpc.other"}

// verifClassify is the reference: what the server must do with member m.
func verifClassify(m *verifMember, push, builtin bool) verifExpect {
	if m.structurallyInvalid() {
		if m.replyShaped() && push {
			return verifExpect{} // dropped: a reply that matches no outstanding callback
		}
		return verifExpect{respond: true, ownID: m.echoesOwnID(), isError: true, codes: []int{-32700, -32600}}
	}
	reserved := len(m.method) >= 4 && m.method[:4] == "rpc." && builtin
	known := m.method == "ok" || m.method == "fail"
	if reserved {
		known = m.method == "rpc.serverInfo"
	}
	if m.isNote() {
		return verifExpect{}
	}
	switch {
	case !known:
		return verifExpect{respond: true, ownID: true, isError: true, codes: []int{-32601}}
	case m.method == "fail":
		return verifExpect{respond: true, ownID: true, isError: true, codes: []int{-1}}
	}
	return verifExpect{respond: true, ownID: true}
}

// verifCheckReply checks one emitted response object against its expectation.
func verifCheckReply(obj json.RawMessage, m *verifMember, e verifExpect) {
	vassert(tokKind(obj) == tkObject, "every emitted message is a JSON object")
	ver, ok := tokMember(obj, "jsonrpc")
	vassert(ok, "reply has a version")
	vs, isStr := tokStringValue(ver)
	vassert(isStr && vs == "2.0", `reply version is "2.0"`)
	id, ok := tokMember(obj, "id")
	vassert(ok, "reply has an id")
	if e.ownID {
		vassert(tokSame(id, m.id), "reply echoes the request id")
	} else {
		vassert(tokKind(id) == tkNull, "reply to an unidentifiable member has id null")
	}
	res, hasRes := tokMember(obj, "result")
	er, hasErr := tokMember(obj, "error")
	vassert(hasRes != hasErr, "exactly one of result and error")
	n := 2
	if hasRes || hasErr {
		n = 3
	}
	vassert(tokMembers(obj) == n, "no other members in a reply")
	if e.isError {
		vassert(hasErr, "an error reply is expected")
		code, ok := tokMember(er, "code")
		vassert(ok, "error has a code")
		c, isInt := tokIntValue(code)
		vassert(isInt, "error code is an integer")
		match := false
		for _, want := range e.codes {
			if c == want {
				match = true
			}
		}
		vassert(match, "error code is the prescribed one")
		msg, ok := tokMember(er, "message")
		vassert(ok && tokKind(msg) == tkString, "error has a string message")
	} else {
		vassert(hasRes, "a result reply is expected")
		_ = res
	}
}

// Harness_C02_member: one record (single member or small batch) through the
// real parser, reply filter, checkAndAssign, dispatcher closure, responses,
// encode.  Ids of the members of one batch are pairwise distinct here
// (duplicates are C07's subject).
func Harness_C02_member() { verifC02(0) }

// Harness_C02_single: one non-batch member, every key subset and value class.
func Harness_C02_single() { verifC02(1) }

// Harness_C02_batch: arrays of one or two members.
func Harness_C02_batch() { verifC02(2) }

// Harness_C02_pairs: arrays of exactly two members, nine classes each.
func Harness_C02_pairs() { verifC02(3) }

func verifC02(mode int) {
	push := nondetBool("allowpush")
	nobuiltin := nondetBool("nobuiltin")
	mux := &verifMux{known: []string{"ok", "fail"}, calls: map[string]int{}, failing: "fail"}
	s := NewServer(mux, &ServerOptions{AllowPush: push, DisableBuiltin: nobuiltin, Concurrency: 2})
	rec := &verifRecorder{}
	s.ch = rec

	var batch bool
	switch mode {
	case 0:
		batch = nondetBool("batch")
	case 2, 3:
		batch = true
	}
	n := 1
	if batch {
		n = 1 + nondetChoice("n", 2)
	}
	if mode == 3 {
		n = 2
	}
	var ms []*verifMember
	var raws []json.RawMessage
	orders := true
	limit := 3
	if thorough() {
		limit = 4
	}
	for i := 0; i < n; i++ {
		names := verifMethodsQuick
		if thorough() {
			names = verifMethods
		}
		var m *verifMember
		if n > 1 {
			// pairs: nine representative member classes each (the full
			// generator squared did not finish in 25 minutes)
			m = verifGenMemberSmall("m" + verifItoa(i))
		} else {
			m = verifGenMember("m"+verifItoa(i), names)
		}
		for _, o := range ms {
			if o.hasID && m.hasID {
				assume(!tokSame(o.id, m.id))
			}
		}
		if m.nkeys > limit || n > 1 && m.nkeys > 2 {
			orders = false
		}
		ms = append(ms, m)
		raws = append(raws, m.raw)
	}
	verifMapOrders(orders)
	var record json.RawMessage
	if batch {
		record = tokArray(raws)
	} else {
		record = raws[0]
	}

	// one iteration of the reader, then the dispatcher, on the real code
	var in jmessages
	derr := in.parseJSON(record)
	vassert(derr == nil, "a valid JSON record is not a parse failure")
	vassert(len(in) == n, "one parsed member per batch member")
	s.mu.Lock()
	keep := s.filterBatchLocked(in)
	var run func() error
	if len(keep) != 0 {
		run = s.dispatchLocked(keep, rec)
	}
	s.mu.Unlock()
	if run != nil {
		run()
	}
	quiesce()
	reach("dispatched")
	vassert(len(s.used) == 0, "no id stays reserved once every handler has returned and the reply is out")

	// expectations
	var exp []verifExpect
	var expM []*verifMember
	okCalls, failCalls := 0, 0
	for _, m := range ms {
		e := verifClassify(m, push, !nobuiltin)
		if !m.structurallyInvalid() {
			switch m.method {
			case "ok":
				okCalls++
			case "fail":
				failCalls++
			}
		}
		if e.respond {
			exp = append(exp, e)
			expM = append(expM, m)
		}
	}
	vassert(mux.calls["ok"] == okCalls && mux.calls["fail"] == failCalls, "handlers run exactly once per valid request and never for an invalid member")
	if len(exp) == 0 {
		vassert(len(rec.sent) == 0, "nothing to report produces no output")
		reach("silent")
		return
	}
	vassert(len(rec.sent) == 1, "the replies of one inbound message are sent as one outbound message")
	out, ok := tokParse(rec.sent[0])
	vassert(ok, "output is valid JSON")
	vassert(noControlBytes(rec.sent[0]), "output is a single line")
	if batch {
		elems, isArr := tokElems(out)
		vassert(isArr, "a batch is answered with an array")
		vassert(len(elems) == len(exp), "one reply per member that is owed one")
		for i := range exp {
			verifCheckReply(elems[i], expM[i], exp[i])
		}
		reach("batch-reply")
	} else {
		verifCheckReply(out, expM[0], exp[0])
		reach("single-reply")
	}
}
