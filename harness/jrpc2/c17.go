//go:build verif

package jrpc2

import (
	"context"
)

type verifAssigner struct {
	calls int
	last  string
	ctxOK bool
	req   *Request
	known string
}

func (v *verifAssigner) Assign(ctx context.Context, m string) Handler {
	v.calls++
	v.last = m
	v.req = InboundRequest(ctx)
	if m != v.known {
		return nil
	}
	return func(ctx context.Context, r *Request) (any, error) { return 42, nil }
}

// Harness_C17_builtin: reserved rpc.* names vs DisableBuiltin.
func Harness_C17_builtin() {
	var name string
	if nondetBool("literal") {
		name = "rpc.serverInfo"
	} else {
		max := 5
		if thorough() {
			max = 16
		}
		name = nondetString("name", max)
	}
	disable := nondetBool("disable")
	spy := &verifAssigner{known: nondetString("known", 5)}
	s := NewServer(spy, &ServerOptions{DisableBuiltin: disable, Concurrency: 1})
	s.mu.Lock()
	h := s.assignLocked(context.Background(), name)
	s.mu.Unlock()
	reserved := len(name) >= 4 && name[:4] == "rpc."
	if reserved && !disable {
		vassert(spy.calls == 0, "rpc.* names are withheld from the assigner")
		vassert((h != nil) == (name == "rpc.serverInfo"), "only rpc.serverInfo has a built-in handler")
		reach("reserved")
		if h != nil {
			v, err := h(context.Background(), nil)
			_, isInfo := v.(*ServerInfo)
			vassert(err == nil && isInfo, "rpc.serverInfo answers with server info")
			reach("serverinfo")
		}
	} else {
		vassert(spy.calls == 1 && spy.last == name, "the assigner sees the exact name")
		vassert((h != nil) == (name == spy.known), "the assigner's answer is used")
		reach("assigned")
	}
}

// Harness_C17_context: assigner and handler see the inbound request and server.
func Harness_C17_context() {
	method := nondetString("method", 3)
	assume(method != "")
	spy := &verifAssigner{known: method}
	s := NewServer(spy, &ServerOptions{DisableBuiltin: true, Concurrency: 1})
	var id []byte
	if nondetBool("call") {
		id = nondetToken("id")
		k := tokKind(id)
		assume(k == tkNumber || k == tkString)
	}
	s.mu.Lock()
	ts := s.checkAndAssignLocked(jmessages{{ID: id, M: method}})
	s.mu.Unlock()
	vassert(len(ts) == 1 && ts[0].err == nil && ts[0].m != nil, "valid request gets its handler")
	vassert(spy.req == ts[0].hreq, "InboundRequest(ctx) in the assigner is the request being dispatched")
	t := ts[0]
	var seenReq *Request
	var seenSrv *Server
	t.m = func(ctx context.Context, r *Request) (any, error) {
		seenReq = InboundRequest(ctx)
		seenSrv = ServerFromContext(ctx)
		return nil, nil
	}
	s.invoke(t.ctx, t.m, t.hreq)
	vassert(seenReq == t.hreq, "InboundRequest(ctx) in the handler is the request")
	vassert(seenSrv == s, "ServerFromContext(ctx) is the server")
	vassert(seenReq.Method() == method, "method name is exact")
	reach("handler-ran")
}
