//go:build verif

package jrpc2

import (
	"context"
	"encoding/json"
	"errors"
	"fmt"
)

type verifCoder struct{ c Code }

func (v verifCoder) Error() string { return "verif coder" }
func (v verifCoder) ErrCode() Code { return v.c }

// verifCoderWrap: an ErrCoder that wraps another error (e.g. an *Error with a
// different code): ErrorCode reports the outer code.
type verifCoderWrap struct {
	c     Code
	inner error
}

func (v verifCoderWrap) Error() string { return "coder wrapping an error" }
func (v verifCoderWrap) ErrCode() Code { return v.c }
func (v verifCoderWrap) Unwrap() error { return v.inner }

type verifPtrCoder struct{ c Code }

func (v *verifPtrCoder) Error() string { return "verif ptr coder" }
func (v *verifPtrCoder) ErrCode() Code { return v.c }

// verifHandlerError builds an arbitrary handler error from the constructors
// users have.  It returns the error and, when the error is a top-level *Error,
// that value.
func verifHandlerError() (error, *Error) {
	code := Code(nondetInt32("code"))
	var err error
	var top *Error
	switch nondetChoice("base", 12) {
	case 9: // the sentinel is reachable only through a multi-error node
		err = errors.Join(errors.New("cleanup failed"), context.Canceled)
	case 10:
		assume(code != NoError)
		err = errors.Join(errors.New("first"), code.Err())
	case 11:
		err = fmt.Errorf("both: %w and %w", errors.New("plain"), &Error{Code: code, Message: "second of two"})
	case 8:
		err = verifCoderWrap{c: code, inner: &Error{Code: Code(nondetInt32("innercode")), Message: "inner"}}
	case 0:
		mlen := 2
		if thorough() {
			mlen = 8
		}
		e := &Error{Code: code, Message: nondetString("msg", mlen)}
		if nondetBool("hasdata") {
			e.Data = nondetToken("data")
			assume(tokKind(e.Data) != tkInvalid)
		}
		err, top = e, e
	case 1:
		assume(code != NoError)
		err = code.Err()
	case 2:
		e := Errorf(code, "formatted")
		err, top = e, e
	case 3:
		err = verifCoder{c: code}
	case 4:
		err = &verifPtrCoder{c: code}
	case 5:
		err = context.Canceled
	case 6:
		err = context.DeadlineExceeded
	case 7:
		err = errors.New("plain")
	}
	depth := nondetChoice("wrap", 3)
	if thorough() {
		depth += nondetChoice("wrap2", 6)
	}
	for i := 0; i < depth; i++ {
		err = fmt.Errorf("wrapped: %w", err)
		top = nil
	}
	return err, top
}

// Harness_C14_chain: handler error -> tasks.responses -> wire -> parse ->
// deliverLocked -> Response.wait -> filterError, for every error shape.
func Harness_C14_chain() {
	herr, top := verifHandlerError()
	want := ErrorCode(herr)
	// reference classification, from ErrorCode's documentation: the first
	// ErrCoder anywhere in the chain (errors.As), else the context sentinels
	// (errors.Is), else SystemError
	var coder ErrCoder
	hasCoder := errors.As(herr, &coder)
	switch {
	case hasCoder:
		vassert(want == coder.ErrCode(), "C14: ErrorCode reports the code of the ErrCoder in the chain")
	case errors.Is(herr, context.Canceled):
		vassert(want == Cancelled, "C14: a (wrapped) context.Canceled classifies as Cancelled")
	case errors.Is(herr, context.DeadlineExceeded):
		vassert(want == DeadlineExceeded, "C14: a (wrapped) context.DeadlineExceeded classifies as DeadlineExceeded")
	default:
		vassert(want == SystemError, "C14: anything else is a SystemError")
	}
	// a custom ErrCoder that reports NoError for a non-nil error is excluded
	// (the property's last sentence exempts NoError)
	assume(want != NoError)

	id := json.RawMessage("7")
	t := &task{hreq: &Request{id: id, method: "m"}, m: func(context.Context, *Request) (any, error) { return nil, nil }, err: herr}
	rsps := tasks{t}.responses(nullRPCLogger{})
	vassert(len(rsps) == 1, "one response for a call")
	bits, merr := rsps.toJSON()
	vassert(merr == nil, "error response encodes")

	var in jmessages
	perr := in.parseJSON(bits)
	vassert(perr == nil && len(in) == 1, "error response parses back")

	c := &Client{log: func(string, ...any) {}, pending: make(map[string]*Response)}
	_, p := newPending(context.Background(), string(id))
	c.pending[string(id)] = p
	c.deliverLocked(in[0])
	p.wait()
	jerr := p.Error()
	vassert(jerr != nil, "an error response yields an error")
	cerr := filterError(jerr)
	reach("delivered")

	vassert(ErrorCode(cerr) == want, "client-side ErrorCode equals handler-side ErrorCode")
	if top != nil {
		got, ok := cerr.(*Error)
		if want == Cancelled || want == DeadlineExceeded {
			// context codes surface as the context sentinels
			vassert(cerr == context.Canceled || cerr == context.DeadlineExceeded, "context code surfaces as sentinel")
		} else {
			vassert(ok, "*Error arrives as *Error")
			vassert(got.Code == top.Code, "code unchanged")
			vassert(got.Message == top.Message, "message unchanged")
			vassert(tokSame(got.Data, top.Data), "data unchanged")
		}
	}
	if errors.Is(herr, context.Canceled) && want == Cancelled {
		vassert(cerr == context.Canceled, "context.Canceled surfaces as the sentinel")
		reach("canceled-sentinel")
	}
	if errors.Is(herr, context.DeadlineExceeded) && want == DeadlineExceeded {
		vassert(cerr == context.DeadlineExceeded, "context.DeadlineExceeded surfaces as the sentinel")
		reach("deadline-sentinel")
	}
}

// Harness_C14_code: ErrorCode(c.Err()) == c for every int32 c != NoError, and
// Error.WithData never modifies its receiver.
func Harness_C14_code() {
	c := Code(nondetInt32("c"))
	if c != NoError {
		vassert(ErrorCode(c.Err()) == c, "ErrorCode(c.Err()) == c")
		reach("code-roundtrip")
	} else {
		vassert(c.Err() == nil, "NoError.Err() is nil")
	}
	e := &Error{Code: c, Message: nondetString("m", 2)}
	if nondetBool("d") {
		// existing data, in a buffer with room to spare (as after a json.Marshal)
		e.Data = append(make(json.RawMessage, 0, 64), nondetToken("olddata")...)
	}
	// a private copy of the bytes: the receiver's data must not be rewritten in place either
	oc, om, od := e.Code, e.Message, append(json.RawMessage(nil), e.Data...)
	var v any
	switch nondetChoice("v", 4) {
	case 0:
		v = nil
	case 1:
		v = nondetString("s", 2)
	case 2:
		v = func() {} // not marshalable
	case 3:
		v = json.RawMessage(nondetToken("raw")) // may be invalid JSON -> marshal failure
	}
	r := e.WithData(v)
	vassert(e.Code == oc && e.Message == om && len(e.Data) == len(od) && (len(od) == 0 || tokSame(e.Data, od)), "WithData leaves the receiver unchanged")
	vassert(r.Code == oc && r.Message == om, "WithData result keeps code and message")
	reach("withdata")
}
