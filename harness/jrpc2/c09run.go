//go:build verif

package jrpc2

import (
	"context"
	"encoding/json"
)

// Harness_C09_parked: a notification handler awaits a callback while request
// dispatch is parked behind that very notification; the peer's reply must
// still be delivered (the reader hands replies to callbacks directly).
func Harness_C09_parked() {
	verifMapOrders(false)
	var cbErr error
	var cbRes json.RawMessage
	cbDone := false
	laterRan := false
	mux := verifMap{
		"note": func(ctx context.Context, req *Request) (any, error) {
			rsp, err := ServerFromContext(ctx).Callback(ctx, "ask", nil)
			cbErr = err
			if err == nil {
				rsp.UnmarshalResult(&cbRes)
			}
			cbDone = true
			return nil, nil
		},
		"later": func(context.Context, *Request) (any, error) { laterRan = true; return "ok", nil },
	}
	s := NewServer(mux, &ServerOptions{AllowPush: true, Concurrency: 1 + nondetChoice("conc", 2)})
	ch := newVerifChan(s.mu, true)
	s.Start(ch)
	ch.in <- verifReq("", "note")
	ch.in <- verifReq("1", "later") // parked behind the notification
	quiesce()
	vassert(!cbDone && !laterRan, "the notification is waiting for its callback; the later request is parked behind it")
	vassert(len(ch.sent) == 1, "the callback request went out")
	var w jmessages
	vassert(w.parseJSON(ch.sent[0]) == nil && len(w) == 1 && w[0].M == "ask", "it is the pushed call")
	id := w[0].ID
	vassert(fixID(id) != nil, "a pushed call has an id")
	// the peer answers the callback - possibly in one record with another request
	reply := tokObject([]string{"jsonrpc", "id", "result"}, []json.RawMessage{tokString("2.0"), id, tokString("answer")})
	if nondetBool("reply-in-batch") {
		ch.in <- tokArray([]json.RawMessage{verifReq("2", "later"), reply})
	} else {
		ch.in <- reply
	}
	quiesce()
	vassert(cbDone && cbErr == nil && tokSame(cbRes, tokString("answer")), "C09: the reply is delivered while dispatch is parked behind the notification, so the handler's callback completes")
	vassert(laterRan, "C03: once the notification has returned the later request runs")
	close(ch.in)
	st := s.WaitStatus()
	vassert(st.Closed, "clean exit")
	quiesce() // a goroutine past its last synchronisation may still have to return
	vassert(liveThreads() == "", "no goroutine left behind")
	reach("parked-done")
}
