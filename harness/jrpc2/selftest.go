//go:build verif

package jrpc2

import (
	"context"
	"encoding/json"
)

// Harness_selftest_wire pushes the inputs of the repository's own table test
// TestServer_nonLibraryClient through the engine (concrete inputs, one path)
// and compares with the table's expected outputs.  The same harness passes
// natively, so a failure here means the engine or a stub misrepresents the
// code (the check then ends inconclusive, never as a violation).
func Harness_selftest_wire() {
	mux := verifMap{
		"X": func(context.Context, *Request) (any, error) { return "OK", nil },
		"Y": func(context.Context, *Request) (any, error) { return nil, nil },
	}
	const invalidID = `{"jsonrpc":"2.0","id":null,"error":{"code":-32600,"message":"invalid request ID"}}`
	tests := []struct{ input, want string }{
		{`{"id":0}`, `{"jsonrpc":"2.0","id":0,"error":{"code":-32600,"message":"invalid version marker"}}`},
		{`{"jsonrpc":"1.5","id":1}`, `{"jsonrpc":"2.0","id":1,"error":{"code":-32600,"message":"invalid version marker"}}`},
		{`{"jsonrpc":"2.0","id":2}`, `{"jsonrpc":"2.0","id":2,"error":{"code":-32600,"message":"empty method name"}}`},
		{`{"jsonrpc":"2.0", "id": 3, "method": "NoneSuch"}`, `{"jsonrpc":"2.0","id":3,"error":{"code":-32601,"message":"method not found","data":"NoneSuch"}}`},
		{`{"jsonrpc":"2.0", "id": 4, "method": "X", "params": "bogus"}`, `{"jsonrpc":"2.0","id":4,"error":{"code":-32600,"message":"parameters must be array or object"}}`},
		{`{"jsonrpc": "2.0", "id": 6, "method": "X", "params": null}`, `{"jsonrpc":"2.0","id":6,"result":"OK"}`},
		{`{"jsonrpc":"2.0","id": 5, "method": "X"}`, `{"jsonrpc":"2.0","id":5,"result":"OK"}`},
		{`{"jsonrpc":"2.0","id":21,"method":"Y"}`, `{"jsonrpc":"2.0","id":21,"result":null}`},
		{`{"jsonrpc":"2.0","id":-600,"method":"Y"}`, `{"jsonrpc":"2.0","id":-600,"result":null}`},
		{`[{"jsonrpc":"2.0", "id":"a1", "method":"X"}, {"jsonrpc":"2.0", "id":"a2", "method": "X"}]`, `[{"jsonrpc":"2.0","id":"a1","result":"OK"},{"jsonrpc":"2.0","id":"a2","result":"OK"}]`},
		{`[1]`, `[{"jsonrpc":"2.0","id":null,"error":{"code":-32700,"message":"request is not a JSON object"}}]`},
		{`[{"jsonrpc": "2.0", "id": 7, "method": "X"}]`, `[{"jsonrpc":"2.0","id":7,"result":"OK"}]`},
		{`[{"jsonrpc": "2.0", "method": "note"}, {"jsonrpc": "2.0", "id": 8, "method": "X"}]`, `[{"jsonrpc":"2.0","id":8,"result":"OK"}]`},
		{`{"jsonrpc": false}`, `{"jsonrpc":"2.0","id":null,"error":{"code":-32700,"message":"invalid version key"}}`},
		{`{"jsonrpc": false, "id": 747}`, `{"jsonrpc":"2.0","id":747,"error":{"code":-32700,"message":"invalid version key"}}`},
		{`{"jsonrpc":"2.0", "method": [false], "id": 252}`, `{"jsonrpc":"2.0","id":252,"error":{"code":-32700,"message":"invalid method name"}}`},
		{`{"jsonrpc":"2.0", "id":[], "method":"X"}`, invalidID},
		{`{"jsonrpc":"2.0", "id":{}, "method":"X"}`, invalidID},
		{`{"jsonrpc":"2.0", "id":true, "method":"X"}`, invalidID},
	}
	row := nondetChoice("row", len(tests)+1)
	if row == len(tests) {
		// top-level failures (reader path)
		for _, bad := range []string{`[{"jsonrpc":"2.0", "method":"A", "id": 1}, {"jsonrpc":"2.0"]`, `{"bogus"][++`} {
			var in jmessages
			vassert(in.parseJSON([]byte(bad)) != nil, "selftest: broken JSON is a top-level parse failure")
		}
		reach("selftest-broken-json")
		return
	}
	for _, test := range tests[row : row+1] {
		s := NewServer(mux, &ServerOptions{Concurrency: 2})
		rec := &verifRecorder{}
		s.ch = rec
		var in jmessages
		vassert(in.parseJSON([]byte(test.input)) == nil, "selftest: table input parses")
		s.mu.Lock()
		keep := s.filterBatchLocked(in)
		var run func() error
		if len(keep) != 0 {
			run = s.dispatchLocked(keep, rec)
		}
		s.mu.Unlock()
		if run != nil {
			run()
		}
		quiesce()
		vassert(len(rec.sent) == 1, "selftest: one reply per table row")
		got, ok1 := tokParse(rec.sent[0])
		want, ok2 := tokParse([]byte(test.want))
		vassert(ok1 && ok2, "selftest: reply and expectation are valid JSON")
		vassert(verifSameJSON(got, want), "selftest: the engine reproduces the reply the repository's own test expects")
	}
	reach("selftest-done")
}

// verifSameJSON compares two parsed JSON values structurally.
func verifSameJSON(a, b json.RawMessage) bool {
	ka, kb := tokKind(a), tokKind(b)
	if ka != kb {
		return false
	}
	switch ka {
	case tkObject:
		if tokMembers(a) != tokMembers(b) {
			return false
		}
		for _, k := range []string{"jsonrpc", "id", "result", "error", "code", "message", "data"} {
			va, ha := tokMember(a, k)
			vb, hb := tokMember(b, k)
			if ha != hb {
				return false
			}
			if ha && !verifSameJSON(va, vb) {
				return false
			}
		}
		return true
	case tkArray:
		ea, _ := tokElems(a)
		eb, _ := tokElems(b)
		if len(ea) != len(eb) {
			return false
		}
		for i := range ea {
			if !verifSameJSON(ea[i], eb[i]) {
				return false
			}
		}
		return true
	case tkString:
		sa, _ := tokStringValue(a)
		sb, _ := tokStringValue(b)
		return sa == sb
	case tkNumber:
		na, oka := tokIntValue(a)
		nb, okb := tokIntValue(b)
		return oka && okb && na == nb
	}
	return true // null / true / false: the kind says it all
}
