//go:build verif

package jrpc2

import (
	"context"
	"encoding/json"
)

// verifMember describes one batch member generated from symbolic choices,
// together with its JSON text (a structured token under the engine).
type verifMember struct {
	raw      json.RawMessage
	isObject bool

	hasV   bool
	vClass int // 0 = "2.0", 1 = other string, 2 = not a string, 3 = null

	hasID   bool
	idKind  int // JSON kind of the id value
	id      json.RawMessage
	hasM    bool
	mClass  int // 0 = non-empty string, 1 = empty string, 2 = not a string, 3 = null
	method  string
	hasP    bool
	pKind   int
	params  json.RawMessage
	hasE    bool
	eClass  int // 0 = well-formed error object, 1 = null, 2 = not an object
	errCode int32
	hasR    bool
	result  json.RawMessage
	hasX    bool
	nkeys   int
}

func verifKindToken(tag string, kind int) json.RawMessage {
	t := nondetToken(tag)
	assume(tokKind(t) == kind)
	return t
}

// verifGenMember builds an arbitrary member.  methods: the candidate method
// names a valid request may use.
func verifGenMember(tag string, methods []string) *verifMember {
	m := &verifMember{}
	full := thorough()
	if nondetBool(tag + ".nonobject") {
		m.raw = nondetToken(tag + ".raw")
		k := tokKind(m.raw)
		assume(k != tkObject && k != tkInvalid && k != tkArray)
		return m
	}
	m.isObject = true
	var keys []string
	var vals []json.RawMessage
	if m.hasV = nondetBool(tag + ".hasV"); m.hasV {
		nv := 3
		if full {
			nv = 4
		}
		m.vClass = nondetChoice(tag+".vClass", nv)
		var v json.RawMessage
		switch m.vClass {
		case 0:
			v = tokString("2.0")
		case 1:
			s := nondetString(tag+".vstr", 3)
			assume(s != "2.0")
			v = tokString(s)
		case 2:
			v = nondetToken(tag + ".vtok")
			k := tokKind(v)
			assume(k != tkString && k != tkNull && k != tkInvalid)
		case 3:
			v = tokLit("null")
		}
		keys, vals = append(keys, "jsonrpc"), append(vals, v)
	}
	if m.hasID = nondetBool(tag + ".hasID"); m.hasID {
		m.id = nondetToken(tag + ".id")
		m.idKind = tokKind(m.id)
		assume(m.idKind != tkInvalid)
		keys, vals = append(keys, "id"), append(vals, m.id)
	}
	if m.hasM = nondetBool(tag + ".hasM"); m.hasM {
		m.mClass = nondetChoice(tag+".mClass", 4)
		var v json.RawMessage
		switch m.mClass {
		case 0:
			m.method = methods[nondetChoice(tag+".method", len(methods))]
			v = tokString(m.method)
		case 1:
			v = tokString("")
		case 2:
			v = nondetToken(tag + ".mtok")
			k := tokKind(v)
			assume(k != tkString && k != tkNull && k != tkInvalid)
		case 3:
			v = tokLit("null")
		}
		keys, vals = append(keys, "method"), append(vals, v)
	}
	if m.hasP = nondetBool(tag + ".hasP"); m.hasP {
		m.params = nondetToken(tag + ".params")
		m.pKind = tokKind(m.params)
		assume(m.pKind != tkInvalid)
		keys, vals = append(keys, "params"), append(vals, m.params)
	}
	if m.hasE = nondetBool(tag + ".hasE"); m.hasE {
		if full {
			m.eClass = nondetChoice(tag+".eClass", 3)
		} else {
			m.eClass = 2 * nondetChoice(tag+".eClass", 2)
		}
		var v json.RawMessage
		switch m.eClass {
		case 0:
			m.errCode = nondetInt32(tag + ".ecode")
			v = tokObject([]string{"code", "message"}, []json.RawMessage{tokLitInt(int(m.errCode)), tokString("boom")})
		case 1:
			v = tokLit("null")
		case 2:
			v = nondetToken(tag + ".etok")
			k := tokKind(v)
			assume(k != tkObject && k != tkNull && k != tkInvalid)
		}
		keys, vals = append(keys, "error"), append(vals, v)
	}
	if m.hasR = nondetBool(tag + ".hasR"); m.hasR {
		m.result = nondetToken(tag + ".result")
		assume(tokKind(m.result) != tkInvalid)
		keys, vals = append(keys, "result"), append(vals, m.result)
	}
	if !full && (m.hasE || m.hasR) {
		// quick tier: the unknown key is combined with request fields only
	} else if m.hasX = nondetBool(tag + ".hasX"); m.hasX {
		keys, vals = append(keys, "x-extra"), append(vals, tokLit("1"))
	}
	m.nkeys = len(keys)
	m.raw = tokObject(keys, vals)
	return m
}

// verifGenMemberSmall builds a member from nine representative classes (ids,
// params, results and error codes stay symbolic).  Used for pairs of members,
// where the full generator would be squared.
func verifGenMemberSmall(tag string) *verifMember {
	m := &verifMember{isObject: true}
	var keys []string
	var vals []json.RawMessage
	add := func(k string, v json.RawMessage) { keys, vals = append(keys, k), append(vals, v) }
	version := func(class int) {
		m.hasV, m.vClass = true, class
		if class == 0 {
			add("jsonrpc", tokString("2.0"))
		} else {
			add("jsonrpc", tokString("1.0"))
		}
	}
	id := func() {
		m.hasID = true
		m.id = nondetToken(tag + ".id")
		m.idKind = tokKind(m.id)
		assume(m.idKind != tkInvalid)
		add("id", m.id)
	}
	method := func(name string) {
		m.hasM, m.mClass, m.method = true, 0, name
		add("method", tokString(name))
	}
	params := func() {
		m.hasP = true
		m.params = nondetToken(tag + ".params")
		m.pKind = tokKind(m.params)
		assume(m.pKind != tkInvalid)
		add("params", m.params)
	}
	switch nondetChoice(tag+".class", 9) {
	case 0: // a call (valid iff its id and params are of the allowed kinds)
		version(0)
		id()
		method("ok")
		params()
	case 1: // a notification
		version(0)
		method("ok")
	case 2: // unknown method
		version(0)
		id()
		method("nosuch")
	case 3: // reserved method
		version(0)
		id()
		method("rpc.other")
	case 4: // wrong version, with an id
		version(1)
		id()
		method("ok")
	case 5: // no version, no id, method not a string
		m.hasM, m.mClass = true, 2
		v := nondetToken(tag + ".mtok")
		k := tokKind(v)
		assume(k != tkString && k != tkNull && k != tkInvalid)
		add("method", v)
	case 6: // reply-shaped: a result under an id
		version(0)
		id()
		m.hasR = true
		m.result = nondetToken(tag + ".result")
		assume(tokKind(m.result) != tkInvalid)
		add("result", m.result)
	case 7: // reply-shaped: an error object
		version(0)
		id()
		m.hasE, m.eClass = true, 0
		m.errCode = nondetInt32(tag + ".ecode")
		add("error", tokObject([]string{"code", "message"}, []json.RawMessage{tokLitInt(int(m.errCode)), tokString("boom")}))
	case 8: // not an object
		m = &verifMember{}
		m.raw = nondetToken(tag + ".raw")
		k := tokKind(m.raw)
		assume(k != tkObject && k != tkInvalid && k != tkArray)
		return m
	}
	m.nkeys = len(keys)
	m.raw = tokObject(keys, vals)
	return m
}

// ---- reference classification, written from the JSON-RPC 2.0 spec and the
// README (not from the parser's control flow) ------------------------------

func (m *verifMember) idIsNullOrAbsent() bool { return !m.hasID || m.idKind == tkNull }

// echoID: the id a reply to this member must carry: the member's own id when
// it is a string or number, otherwise null.
func (m *verifMember) echoesOwnID() bool {
	return m.isObject && m.hasID && (m.idKind == tkString || m.idKind == tkNumber)
}

// hasReplyFields: carries a (non-null) error or a result.
func (m *verifMember) hasReplyFields() bool {
	return (m.hasE && m.eClass != 1) || m.hasR
}

// structurallyInvalid: the member is not a valid JSON-RPC 2.0 request object.
func (m *verifMember) structurallyInvalid() bool {
	if !m.isObject {
		return true
	}
	if !m.hasV || m.vClass != 0 {
		return true
	}
	if m.hasID && !(m.idKind == tkString || m.idKind == tkNumber || m.idKind == tkNull) {
		return true
	}
	if !m.hasM || m.mClass != 0 {
		return true // missing, empty, null or non-string method
	}
	if m.hasP && !(m.pKind == tkArray || m.pKind == tkObject || m.pKind == tkNull) {
		return true
	}
	if m.hasE && m.eClass == 2 {
		return true
	}
	if m.hasReplyFields() {
		return true // mixed request and reply fields
	}
	if m.hasX {
		return true
	}
	return false
}

// replyShaped: carries a result or error and no method name (the method key is
// absent, null, empty or not a string): a response object.
func (m *verifMember) replyShaped() bool {
	wellFormedReply := m.hasR || (m.hasE && m.eClass == 0)
	return m.isObject && wellFormedReply && (!m.hasM || m.mClass != 0)
}

func (m *verifMember) isCall() bool { return !m.structurallyInvalid() && !m.idIsNullOrAbsent() }

func (m *verifMember) isNote() bool { return !m.structurallyInvalid() && m.idIsNullOrAbsent() }

func tokLitInt(n int) json.RawMessage { return json.RawMessage(verifItoa(n)) }

// ---- a recording channel ----------------------------------------------------

type verifRecorder struct {
	sent   [][]byte
	closed int
	fail   bool
}

func (r *verifRecorder) Send(b []byte) error {
	r.sent = append(r.sent, b)
	return nil
}
func (r *verifRecorder) Recv() ([]byte, error) { panic("verifRecorder.Recv") }
func (r *verifRecorder) Close() error          { r.closed++; return nil }

// verifMux: a fixed assigner with instrumented handlers.
type verifMux struct {
	known   []string
	calls   map[string]int
	failing string // method whose handler returns an error
	results map[string]json.RawMessage
}

func (v *verifMux) Assign(_ context.Context, method string) Handler {
	for _, k := range v.known {
		if k == method {
			return func(ctx context.Context, r *Request) (any, error) {
				v.calls[method]++
				if method == v.failing {
					return nil, Errorf(Code(-1), "handler failed")
				}
				if res, ok := v.results[method]; ok {
					return res, nil
				}
				return nil, nil
			}
		}
	}
	return nil
}
