//go:build verif

package jrpc2

import (
	"context"
	"encoding/json"
)

// Harness_C06_opts: the concurrency option, for every int value.
func Harness_C06_opts() {
	n := nondetInt("concurrency")
	var o *ServerOptions
	if !nondetBool("nil-options") {
		o = &ServerOptions{Concurrency: n}
	}
	got := o.concurrency()
	vassert(got >= 1, "C06: the effective limit is at least one")
	if o != nil && n >= 1 {
		vassert(got == int64(n), "C06: a positive Concurrency option is the limit")
		reach("explicit")
	} else {
		reach("default")
	}
	s := NewServer(verifMap{}, o)
	// the semaphore admits exactly `got` units
	vassert(s.sem.TryAcquire(got), "C06: the handler semaphore has room for Concurrency handlers")
	vassert(!s.sem.TryAcquire(1), "C06: ... and for no more")
}

// Harness_C06_run: more calls than slots; gated handlers; one waiting call is
// cancelled while it waits for a slot.
func Harness_C06_run() {
	verifMapOrders(false)
	limit := 1 + nondetChoice("limit", 2)
	ncalls := 3
	if thorough() {
		limit = 1 + nondetChoice("limit3", 3)
		ncalls = 4
	}
	log := &verifLog{gates: map[string]chan struct{}{}}
	mux := verifMap{}
	var batch jmessages
	withBuiltin := nondetBool("with-builtin")
	// a gated notification ahead of the calls: members of one message run
	// concurrently, so it must not hold up the calls behind it
	noteFirst := nondetBool("gated-notification-first")
	if noteFirst {
		log.gates["first"] = make(chan struct{})
		mux["first"] = log.handler("first", nil, nil)
		batch = append(batch, &jmessage{M: "first", batch: true})
	}
	for i := 0; i < ncalls; i++ {
		name := "c" + verifItoa(i)
		log.gates[name] = make(chan struct{})
		mux[name] = log.handler(name, name, nil)
		batch = append(batch, &jmessage{ID: json.RawMessage(verifItoa(i + 1)), M: name, batch: true})
	}
	if withBuiltin {
		batch = append(batch, &jmessage{ID: json.RawMessage("9"), M: "rpc.serverInfo", batch: true})
	}
	// a notification whose handler fails (its error is discarded, its slot must not be)
	withNote := nondetBool("with-failing-notification")
	if withNote {
		mux["note"] = log.handler("note", nil, Errorf(Code(nondetInt32("notecode")), "notification failed"))
		batch = append(batch, &jmessage{M: "note", batch: true})
	}
	nresp := len(batch)
	if withNote {
		nresp--
	}
	if noteFirst {
		nresp--
	}
	s := NewServer(mux, &ServerOptions{Concurrency: limit})
	rec := &verifRecorder{}
	s.ch = rec
	s.mu.Lock()
	run := s.dispatchLocked(batch, rec)
	s.mu.Unlock()
	finished := false
	go func() { run(); finished = true }()
	quiesce()
	vassert(log.maxRun <= limit, "C06: never more handlers executing than the Concurrency option allows")
	// work conservation: with requests waiting, every slot is in use
	// (the built-in and the notification handler do not block, so they may
	// already be through)
	vassert(log.running == limit, "C06: while dispatched requests wait, all slots are in use (work-conserving)")
	vassert(!finished, "the reply waits for the handlers")
	// cancel one call that is still waiting for a slot
	var waiting []int
	for i := 0; i < ncalls; i++ {
		if log.find("c"+verifItoa(i)) == nil {
			waiting = append(waiting, i)
		}
	}
	if noteFirst {
		// the notification holds one slot; the calls share the rest
		vassert(len(waiting) >= ncalls-limit, "the calls beyond the free slots are waiting")
		vassert(len(waiting) > 0 || limit > ncalls, "a waiting call exists to be cancelled")
	} else {
		vassert(len(waiting) == ncalls-limit, "exactly the calls beyond the limit are waiting")
	}
	victim := waiting[nondetChoice("victim", len(waiting))]
	s.CancelRequest(verifItoa(victim + 1))
	quiesce()
	vassert(log.find("c"+verifItoa(victim)) == nil, "C06: a call cancelled while waiting for a slot never runs its handler")
	// let everything finish
	if noteFirst {
		close(log.gates["first"])
	}
	for i := 0; i < ncalls; i++ {
		close(log.gates["c"+verifItoa(i)])
	}
	quiesce()
	vassert(finished, "the batch completes")
	vassert(log.maxRun <= limit, "C06: limit respected to the end")
	vassert(log.find("c"+verifItoa(victim)) == nil, "C06: the cancelled waiter's handler never ran")
	for i := 0; i < ncalls; i++ {
		if i != victim {
			vassert(log.count("c"+verifItoa(i)) == 1, "every other call ran exactly once")
		}
	}
	vassert(len(rec.sent) == 1, "one reply for the batch")
	out, _ := tokParse(rec.sent[0])
	elems, _ := tokElems(out)
	vassert(len(elems) == nresp, "one response per call")
	er, hasErr := tokMember(elems[victim], "error")
	vassert(hasErr, "C06: the cancelled waiter is answered with an error")
	code, _ := tokMember(er, "code")
	c, _ := tokIntValue(code)
	vassert(Code(c) == Cancelled, "C06: ... namely the cancellation error")
	// all slots free again
	vassert(s.sem.TryAcquire(int64(limit)), "C06: every slot is released when the handlers are done")
	reach("done")
}

var _ = context.Background

// Harness_C06_callback: a handler that is waiting for the reply to its own
// server push (Callback) is still executing: it keeps its slot, so no further
// handler is admitted beyond the limit while it waits.
func Harness_C06_callback() {
	verifMapOrders(false)
	limit := 1 + nondetChoice("limit", 2)
	log := &verifLog{gates: map[string]chan struct{}{}}
	var s *Server
	var cbErr error
	cbReturned := false
	mux := verifMap{}
	mux["cb"] = func(ctx context.Context, req *Request) (any, error) {
		r := &verifRun{name: "cb", id: req.ID(), enter: vclock()}
		log.runs = append(log.runs, r)
		log.running++
		if log.running > log.maxRun {
			log.maxRun = log.running
		}
		_, cbErr = s.Callback(ctx, "ask", nil)
		cbReturned = true
		log.running--
		r.exit = vclock()
		return "asked", nil
	}
	var batch jmessages
	for i := 0; i < limit; i++ {
		name := "c" + verifItoa(i)
		log.gates[name] = make(chan struct{})
		mux[name] = log.handler(name, name, nil)
		batch = append(batch, &jmessage{ID: json.RawMessage(verifItoa(i + 2)), M: name, batch: true})
	}
	batch = append(batch, &jmessage{ID: json.RawMessage("1"), M: "cb", batch: true})
	s = NewServer(mux, &ServerOptions{Concurrency: limit, AllowPush: true})
	rec := &verifRecorder{}
	s.ch = rec
	s.mu.Lock()
	run := s.dispatchLocked(batch, rec)
	s.mu.Unlock()
	finished := false
	go func() { run(); finished = true }()
	quiesce()
	// limit+1 handlers for limit slots: one of them waits, whichever the schedule chose
	vassert(log.maxRun <= limit && log.running == limit, "C06: a handler waiting for its callback still counts: never more handlers executing than the limit")
	answer := func() {
		push, _ := tokParse(rec.sent[0])
		pid, _ := tokMember(push, "id")
		s.mu.Lock()
		s.filterBatchLocked(jmessages{&jmessage{ID: pid, R: json.RawMessage("1")}})
		s.mu.Unlock()
		quiesce()
		vassert(cbReturned && cbErr == nil, "the callback returns with the client's reply")
	}
	pushed := len(rec.sent) == 1
	if pushed {
		vassert(!cbReturned, "the handler waits for the reply to its push")
		reach("waiting-in-callback")
		answer()
		vassert(log.maxRun <= limit, "C06: ... also while the reply is being delivered")
	}
	for i := 0; i < limit; i++ {
		close(log.gates["c"+verifItoa(i)])
	}
	quiesce()
	if !pushed {
		// the pushing handler was the one that had to wait for a slot
		vassert(len(rec.sent) == 1 && !cbReturned, "the push goes out once its handler is admitted")
		answer()
	}
	vassert(finished && log.maxRun <= limit, "C06: limit respected to the end")
	vassert(len(log.runs) == limit+1, "every call ran exactly once")
	vassert(s.sem.TryAcquire(int64(limit)), "C06: every slot is released when the handlers are done")
	reach("done")
}

// verifNamerMux is an assigner whose Names method (the observable work of the
// rpc.serverInfo built-in) records how many user handlers were executing.
type verifNamerMux struct {
	verifMap
	log        *verifLog
	calls      int
	maxRunning int
}

func (m *verifNamerMux) Names() []string {
	m.calls++
	if m.log.running > m.maxRunning {
		m.maxRunning = m.log.running
	}
	return []string{"c0"}
}

// Harness_C06_builtin: the built-in rpc.serverInfo counts against the limit
// like any handler: with every slot taken by user handlers its work (walking
// the assigner's names) does not happen until a slot is free.
func Harness_C06_builtin() {
	verifMapOrders(false)
	limit := 1 + nondetChoice("limit", 2)
	log := &verifLog{gates: map[string]chan struct{}{}}
	mux := &verifNamerMux{verifMap: verifMap{}, log: log}
	var batch jmessages
	for i := 0; i < limit; i++ {
		name := "c" + verifItoa(i)
		log.gates[name] = make(chan struct{})
		mux.verifMap[name] = log.handler(name, name, nil)
		batch = append(batch, &jmessage{ID: json.RawMessage(verifItoa(i + 1)), M: name, batch: true})
	}
	s := NewServer(mux, &ServerOptions{Concurrency: limit})
	rec := &verifRecorder{}
	s.ch = rec
	s.mu.Lock()
	run := s.dispatchLocked(batch, rec)
	s.mu.Unlock()
	done1, done2 := false, false
	go func() { run(); done1 = true }()
	quiesce()
	vassert(log.running == limit, "every slot is taken by a user handler")
	// now the built-in arrives
	s.mu.Lock()
	run2 := s.dispatchLocked(jmessages{&jmessage{ID: json.RawMessage("9"), M: "rpc.serverInfo"}}, rec)
	s.mu.Unlock()
	go func() { run2(); done2 = true }()
	quiesce()
	vassert(mux.calls == 0 && !done2, "C06: with all slots in use the built-in method does not execute (built-in methods count against the limit)")
	for i := 0; i < limit; i++ {
		close(log.gates["c"+verifItoa(i)])
	}
	quiesce()
	vassert(done1 && done2 && mux.calls == 1, "the built-in runs once a slot is free")
	vassert(mux.maxRunning < limit, "C06: the built-in held a slot of its own while it worked")
	vassert(len(rec.sent) == 2, "both messages are answered")
	vassert(s.sem.TryAcquire(int64(limit)), "C06: every slot is released")
	reach("builtin-done")
}
