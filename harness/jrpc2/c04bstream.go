//go:build verif

package jrpc2

import (
	"context"
	"encoding/json"
)

// Harness_C04_batchstream: a real NewClient; one Batch of two calls (and
// optionally a notification); the peer answers the calls in separate records,
// in either order, and the client runs in between.  Only the public API is
// used.  The first reply completes nothing but its own call: Batch keeps
// waiting, no OnCancel hook runs, and in the end every response carries the
// reply sent for its own id.
func Harness_C04_batchstream() {
	verifMapOrders(false)
	ch := newVerifChan(nil, true)
	var cancelled []string
	cli := NewClient(ch, &ClientOptions{OnCancel: func(_ *Client, r *Response) { cancelled = append(cancelled, r.ID()) }})
	ch.owner = &cli.mu
	specs := []Spec{{Method: "m0"}, {Method: "m1"}}
	if nondetBool("with-notification") {
		specs = []Spec{{Method: "m0"}, {Method: "note", Notify: true}, {Method: "m1"}}
	}
	var rsps []*Response
	var berr error
	returned := false
	go func() {
		rsps, berr = cli.Batch(context.Background(), specs)
		returned = true
	}()
	quiesce()
	vassert(len(ch.sent) == 1 && !returned, "the batch is on the wire and Batch waits")
	out, ok := tokParse(ch.sent[0])
	elems, isArr := tokElems(out)
	vassert(ok && isArr && len(elems) == len(specs), "one member per spec")
	var ids [2]json.RawMessage
	k := 0
	for i, e := range elems {
		id, hasID := tokMember(e, "id")
		if specs[i].Notify {
			vassert(!hasID, "a notification has no id")
			continue
		}
		vassert(hasID, "a call has an id")
		ids[k] = id
		k++
	}
	vassert(!tokSame(ids[0], ids[1]), "C04: two requests of one batch have different ids")
	reply := func(i int) json.RawMessage {
		return tokObject([]string{"jsonrpc", "id", "result"}, []json.RawMessage{tokString("2.0"), ids[i], tokString("answer-" + verifItoa(i))})
	}
	first := nondetChoice("first", 2)
	ch.in <- reply(first)
	quiesce()
	vassert(!returned, "C04/C05: Batch returns only when every call has its reply")
	vassert(len(cancelled) == 0, "C05: OnCancel never runs for a request whose context has not ended")
	vassert(len(cli.pending) == 1, "the other call is still pending")
	ch.in <- reply(1 - first)
	quiesce()
	vassert(returned && berr == nil && len(rsps) == 2, "Batch returns one response per call")
	for i := 0; i < 2; i++ {
		vassert(rsps[i].ID() == string(ids[i]), "C04: responses in spec order")
		vassert(rsps[i].Error() == nil, "C04/C05: each call completes with the peer's reply, not with an error nobody caused")
		var got json.RawMessage
		vassert(rsps[i].UnmarshalResult(&got) == nil && tokSame(got, tokString("answer-"+verifItoa(i))), "C04: ... carrying the result sent for its own id")
	}
	vassert(len(cancelled) == 0, "C05: OnCancel never runs for an answered request")
	close(ch.in)
	cli.Close()
	quiesce()
	vassert(liveThreads() == "", "C05: no goroutine is left behind after Close")
	reach("batchstream-done")
}
