//go:build verif

package jrpc2

import (
	"encoding/json"
)

// Harness_C02_envelope: a real started server receives one record that is not
// a request at all - undecodable JSON, an empty array, an array holding a
// non-object, or a bare scalar - and must answer as prescribed, keep serving,
// and invoke no handler for it.
func Harness_C02_envelope() {
	verifMapOrders(false)
	log := &verifLog{gates: map[string]chan struct{}{}}
	mux := verifMap{"ping": log.handler("ping", "pong", nil)}
	s := NewServer(mux, &ServerOptions{Concurrency: 2, AllowPush: nondetBool("push")})
	ch := newVerifChan(s.mu, true)
	s.Start(ch)

	class := nondetChoice("record", 4)
	var rec json.RawMessage
	wantCode := 0
	wantArray := false
	switch class {
	case 0: // undecodable
		rec = nondetToken("garbage")
		assume(tokKind(rec) == tkInvalid)
		wantCode = -32700
	case 1: // empty batch
		rec = tokArray(nil)
		wantCode = -32600
	case 2: // array holding a non-object
		t := nondetToken("scalar-member")
		k := tokKind(t)
		assume(k != tkObject && k != tkInvalid)
		rec = tokArray([]json.RawMessage{t})
		wantCode = -32700
		wantArray = true
	case 3: // a bare scalar instead of a request object
		rec = nondetToken("scalar")
		k := tokKind(rec)
		assume(k != tkObject && k != tkArray && k != tkInvalid)
		wantCode = -32700
	}
	ch.in <- rec
	quiesce()
	vassert(len(ch.sent) == 1, "C02: a record that is no request is answered with exactly one message")
	out, ok := tokParse(ch.sent[0])
	vassert(ok, "the answer is valid JSON")
	obj := out
	if wantArray {
		elems, isArr := tokElems(out)
		vassert(isArr && len(elems) == 1, "C02: an invalid batch member is answered at its position, in an array")
		obj = elems[0]
	} else {
		vassert(tokKind(out) == tkObject, "C02: a top-level failure is answered with one error object")
	}
	id, hasID := tokMember(obj, "id")
	vassert(hasID && tokKind(id) == tkNull, "C02: the error object has id null")
	er, hasErr := tokMember(obj, "error")
	vassert(hasErr, "C02: it is an error")
	code, _ := tokMember(er, "code")
	c, isInt := tokIntValue(code)
	if class <= 1 {
		vassert(isInt && c == wantCode, "C02: -32700 for undecodable input, -32600 for an empty array")
	} else {
		vassert(isInt && (c == -32700 || c == -32600), "C02: a non-object member is answered with -32700 or -32600")
	}
	ver, _ := tokMember(obj, "jsonrpc")
	vs, _ := tokStringValue(ver)
	vassert(vs == "2.0", `C02: version "2.0"`)
	vassert(len(log.runs) == 0, "C02: no handler is invoked")
	reach("answered")

	// liveness probe: the server keeps serving
	ch.in <- verifReq("7", "ping")
	quiesce()
	vassert(len(ch.sent) == 2 && log.count("ping") == 1, "C02: the server neither crashes nor stops serving")
	probe, _ := tokParse(ch.sent[1])
	pid, _ := tokMember(probe, "id")
	vassert(tokSame(pid, tokLit("7")), "the probe is answered with its id")
	close(ch.in)
	reach("alive")
}
