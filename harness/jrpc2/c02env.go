//go:build verif

package jrpc2

import (
	"encoding/json"
)

// Harness_C02_envelope: a real started server receives one record that is not
// a request at all - undecodable JSON, an empty array, an array holding a
// non-object, or a bare scalar - and must answer as prescribed, keep serving,
// and invoke no handler for it.
func Harness_C02_envelope() {
	verifMapOrders(false)
	log := &verifLog{gates: map[string]chan struct{}{}}
	mux := verifMap{"ping": log.handler("ping", "pong", nil)}
	s := NewServer(mux, &ServerOptions{Concurrency: 2, AllowPush: nondetBool("push")})
	ch := newVerifChan(s.mu, true)
	s.Start(ch)

	class := nondetChoice("record", 11)
	var rec json.RawMessage
	wantCode := 0
	wantArray := false
	switch class {
	case 0: // undecodable
		rec = nondetToken("garbage")
		assume(tokKind(rec) == tkInvalid)
		wantCode = -32700
	case 1: // empty batch
		rec = tokArray(nil)
		wantCode = -32600
	case 2: // array holding a non-object
		t := nondetToken("scalar-member")
		k := tokKind(t)
		assume(k != tkObject && k != tkInvalid)
		rec = tokArray([]json.RawMessage{t})
		wantCode = -32700
		wantArray = true
	case 3: // a bare scalar instead of a request object
		rec = nondetToken("scalar")
		k := tokKind(rec)
		assume(k != tkObject && k != tkArray && k != tkInvalid)
		wantCode = -32700
	}
	if class >= 9 {
		// a rejected member ahead of two valid ones: each valid member still
		// runs and is answered (a call) or runs silently (a notification)
		var bad json.RawMessage
		if nondetBool("bad-is-scalar") {
			bad = nondetToken("scalar-first")
			k := tokKind(bad)
			assume(k != tkObject && k != tkInvalid && k != tkArray)
		} else {
			bad = tokObject([]string{"jsonrpc", "id", "method"}, []json.RawMessage{tokString("1.0"), tokLit("4"), tokString("ping")})
		}
		last := verifReq("6", "ping")
		want := 3
		if class == 10 {
			last = verifReq("", "ping")
			want = 2
		}
		ch.in <- tokArray([]json.RawMessage{bad, verifReq("5", "ping"), last})
		quiesce()
		vassert(len(ch.sent) == 1 && log.count("ping") == 2, "C02: every valid member of a batch that starts with a rejected member runs its handler")
		out, ok := tokParse(ch.sent[0])
		elems, isArr := tokElems(out)
		vassert(ok && isArr && len(elems) == want, "C02: one response per call and per rejected member")
		for _, e := range elems {
			_, hasRes := tokMember(e, "result")
			_, hasErr := tokMember(e, "error")
			vassert(hasRes != hasErr, "C02: each response carries exactly one of result and error")
		}
		ch.in <- verifReq("7", "ping")
		quiesce()
		vassert(len(ch.sent) == 2 && log.count("ping") == 3, "C02: the server keeps serving")
		close(ch.in)
		reach("rejected-first")
		return
	}
	if class >= 7 {
		// notifications that cannot be delivered (unknown method), alone or in a
		// batch of notifications: nothing to report, so nothing at all is sent
		// (in particular no empty array)
		bad := verifReq("", "nosuch")
		if class == 7 {
			ch.in <- bad
		} else {
			ch.in <- tokArray([]json.RawMessage{bad, verifReq("", "ping")})
		}
		quiesce()
		vassert(len(ch.sent) == 0, "C01/C02/C10: notifications are never answered, not even with an empty array")
		vassert(log.count("ping") == class-7, "the deliverable notification of the batch ran")
		ch.in <- verifReq("7", "ping")
		quiesce()
		vassert(len(ch.sent) == 1 && log.count("ping") == class-6, "C02: the server keeps serving")
		close(ch.in)
		reach("undeliverable-notification")
		return
	}
	if class >= 4 {
		verifC02Padded(s, ch, log, class)
		return
	}
	ch.in <- rec
	quiesce()
	vassert(len(ch.sent) == 1, "C02: a record that is no request is answered with exactly one message")
	out, ok := tokParse(ch.sent[0])
	vassert(ok, "the answer is valid JSON")
	obj := out
	if wantArray {
		elems, isArr := tokElems(out)
		vassert(isArr && len(elems) == 1, "C02: an invalid batch member is answered at its position, in an array")
		obj = elems[0]
	} else {
		vassert(tokKind(out) == tkObject, "C02: a top-level failure is answered with one error object")
	}
	id, hasID := tokMember(obj, "id")
	vassert(hasID && tokKind(id) == tkNull, "C02: the error object has id null")
	er, hasErr := tokMember(obj, "error")
	vassert(hasErr, "C02: it is an error")
	code, _ := tokMember(er, "code")
	c, isInt := tokIntValue(code)
	if class <= 1 {
		vassert(isInt && c == wantCode, "C02: -32700 for undecodable input, -32600 for an empty array")
	} else {
		vassert(isInt && (c == -32700 || c == -32600), "C02: a non-object member is answered with -32700 or -32600")
	}
	ver, _ := tokMember(obj, "jsonrpc")
	vs, _ := tokStringValue(ver)
	vassert(vs == "2.0", `C02: version "2.0"`)
	vassert(len(log.runs) == 0, "C02: no handler is invoked")
	reach("answered")

	// liveness probe: the server keeps serving
	ch.in <- verifReq("7", "ping")
	quiesce()
	vassert(len(ch.sent) == 2 && log.count("ping") == 1, "C02: the server neither crashes nor stops serving")
	probe, _ := tokParse(ch.sent[1])
	pid, _ := tokMember(probe, "id")
	vassert(tokSame(pid, tokLit("7")), "the probe is answered with its id")
	close(ch.in)
	reach("alive")
}

// verifPad surrounds a JSON text with insignificant white space (RFC 8259:
// space, tab, line feed, carriage return), each byte chosen by the solver.
func verifPad(tag string, rec json.RawMessage) json.RawMessage {
	ws := func(t string) []byte {
		b := nondetBytes(t, 2)
		for _, c := range b {
			assume(c == ' ' || c == '\t' || c == '\n' || c == '\r')
		}
		return b
	}
	var out []byte
	out = append(out, ws(tag+"-pre")...)
	out = append(out, rec...)
	out = append(out, ws(tag+"-post")...)
	return out
}

// verifC02Padded: white space around a record does not change what it is: a
// padded batch is a batch, a padded call is a call, a padded empty array is
// an empty batch.
func verifC02Padded(s *Server, ch *verifChan, log *verifLog, class int) {
	call := verifReq("5", "ping")
	switch class {
	case 4:
		ch.in <- verifPad("pad", tokArray([]json.RawMessage{call}))
	case 5:
		ch.in <- verifPad("pad", call)
	case 6:
		ch.in <- verifPad("pad", tokArray(nil))
	}
	quiesce()
	vassert(len(ch.sent) == 1, "C02: a padded record is answered with exactly one message")
	out, ok := tokParse(ch.sent[0])
	vassert(ok, "the answer is valid JSON")
	obj := out
	if class == 4 {
		elems, isArr := tokElems(out)
		vassert(isArr && len(elems) == 1, "C02: a batch preceded by white space is answered as a batch")
		obj = elems[0]
	} else {
		vassert(tokKind(out) == tkObject, "C02: a single request (or an empty batch) is answered with one object")
	}
	id, hasID := tokMember(obj, "id")
	if class == 6 {
		vassert(hasID && tokKind(id) == tkNull, "C02: the empty batch is answered with id null")
		er, hasErr := tokMember(obj, "error")
		vassert(hasErr, "C02: it is an error")
		code, _ := tokMember(er, "code")
		c, isInt := tokIntValue(code)
		vassert(isInt && c == -32600, "C02: -32600 for an empty array, padded or not")
		vassert(len(log.runs) == 0, "C02: no handler is invoked")
	} else {
		vassert(hasID && tokSame(id, tokLit("5")), "C02: the padded call is answered under its id")
		_, hasRes := tokMember(obj, "result")
		vassert(hasRes && log.count("ping") == 1, "C02: the padded call ran its handler once and got its result")
	}
	close(ch.in)
	reach("padded")
}
