//go:build verif

package jrpc2

import (
	"context"
)

// Harness_C10_client: a real NewClient over the instrumented channel with
// callback and notification handlers; the peer pushes a callback request and a
// notification while the application issues a Call, a Notify and finally
// Close.  The channel wrapper asserts the discipline on every call.
func Harness_C10_client() {
	verifMapOrders(false)
	gate := make(chan struct{})
	cbRan := 0
	cbDone := false
	cbMode := nondetChoice("callback-mode", 4)
	var cbErr *Error
	if cbMode == 3 {
		// the callback handler fails with an *Error carrying whatever bytes it
		// likes as data (valid JSON or not): its reply is still one whole message
		cbErr = &Error{Code: Code(nondetInt32("cb-code")), Message: "callback failed", Data: nondetToken("cb-errdata")}
	}
	opts := &ClientOptions{
		OnCallback: func(ctx context.Context, req *Request) (any, error) {
			cbRan++
			switch cbMode {
			case 1:
				select {
				case <-gate:
				case <-ctx.Done():
				}
			case 2:
				<-gate // ignores its context
			}
			cbDone = true
			if cbErr != nil {
				return nil, cbErr
			}
			return "cb-result", nil
		},
		OnNotify: func(req *Request) {},
	}
	var ch *verifChan
	c := &Client{}
	_ = c
	ch = newVerifChan(nil, nondetBool("close-unblocks-recv"))
	cli := NewClient(ch, opts)
	ch.owner = &cli.mu
	// peer: a callback request, optionally a notification
	ch.in <- verifReq("1", "peer.callback")
	if nondetBool("peer-note") {
		ch.in <- verifReq("", "peer.note")
	}
	// application traffic racing with the callback reply
	var callErr error
	callDone := false
	callCtx, cancelCall := context.WithCancel(context.Background())
	stalled := nondetBool("stalled-send")
	if stalled {
		ch.sendGate = make(chan struct{})
	}
	go func() {
		_, callErr = cli.Call(callCtx, "app.call", nil)
		callDone = true
	}()
	if stalled {
		// the transport stalls inside Send; the caller's context ends; another
		// request is issued meanwhile: still at most one Send at a time
		quiesce()
		cancelCall()
		quiesce()
		go cli.Notify(context.Background(), "app.other", nil)
		quiesce()
		close(ch.sendGate)
		quiesce()
		reach("stalled-send")
	}
	if nondetBool("app-notify") {
		cli.Notify(context.Background(), "app.note", nil)
	}
	quiesce()
	vassert(cbRan == 1, "the callback handler ran once")
	peerFirst := nondetBool("peer-eof-first")
	if peerFirst {
		close(ch.in) // the client is stopped by the peer before Close is called
		quiesce()
	}
	closed := false
	go func() { cli.Close(); closed = true }()
	quiesce()
	if cbMode == 2 {
		vassert(!closed && !cbDone, "C05: Close returns only after all callback handlers have returned")
		reach("close-waits")
	}
	close(gate)
	quiesce()
	if !ch.closeUnblocks && !peerFirst {
		close(ch.in)
		quiesce()
	}
	vassert(cbDone, "the callback handler returned")
	vassert(closed, "C05: Close returns")
	vassert(callDone && callErr != nil, "C05: the outstanding Call ends with an error at Close")
	cancelCall()
	vassert(ch.closes == 1, "C10: Close is called exactly once per NewClient")
	reach("closed")
}
