//go:build verif

package jrpc2

import (
	"context"
	"encoding/json"
)

type verifOutcome struct {
	kind   int // 0 result, 1 *Error, 2 plain error, 3 unmarshalable result, 4 wrapped coded error
	result json.RawMessage
	code   Code
	err    error
	enter  int
	exit   int
	runs   int
}

type verifClockRecorder struct {
	verifRecorder
	sentAt []int
}

func (r *verifClockRecorder) Send(b []byte) error {
	r.sentAt = append(r.sentAt, vclock())
	return r.verifRecorder.Send(b)
}

// Harness_C01_batch: one inbound message of 1..3 valid requests (calls and
// notifications) through the real dispatcher closure; handler outcomes are
// symbolic (any result, any error code - also for notifications).
func Harness_C01_batch() {
	verifMapOrders(false)
	n := 1 + nondetChoice("n", 3)
	batchFlag := n > 1 || nondetBool("array-of-one")
	outs := make([]*verifOutcome, n)
	mux := verifMap{}
	var batch jmessages
	var ids []json.RawMessage
	for i := 0; i < n; i++ {
		o := &verifOutcome{}
		if n == 3 && !thorough() {
			// quick tier: three-member batches mix successful and rejected members only
			o.kind = 5 * nondetChoice("outcome3", 2)
		} else {
			o.kind = nondetChoice("outcome", 6)
		}
		switch o.kind {
		case 5: // unknown method: rejected before dispatch, no handler runs
			o.code = MethodNotFound
		case 0:
			o.result = nondetToken("result")
			assume(tokKind(o.result) != tkInvalid)
		case 3: // a result json.Marshal refuses: a function value, or raw bytes that are not JSON
			if nondetBool("invalid-raw-result") {
				o.result = nondetToken("badresult")
				assume(tokKind(o.result) == tkInvalid)
			}
		case 1:
			o.code = Code(nondetInt32("code"))
			e := &Error{Code: o.code, Message: "handler error"}
			if nondetBool("error-has-data") {
				// any bytes a handler may have put there, valid JSON or not:
				// the call is owed its one response either way
				e.Data = nondetToken("errdata")
			}
			o.err = e
		case 2:
			o.err = context.DeadlineExceeded
			o.code = DeadlineExceeded
		case 4:
			o.code = Code(nondetInt32("wcode"))
			assume(o.code != NoError)
			o.err = verifWrap(o.code.Err())
		}
		outs[i] = o
		name := "h" + verifItoa(i)
		if o.kind == 5 {
			name = "nosuch" + verifItoa(i)
		}
		mux["h"+verifItoa(i)] = func(ctx context.Context, req *Request) (any, error) {
			o.runs++
			o.enter = vclock()
			vyield()
			o.exit = vclock()
			switch o.kind {
			case 0:
				return o.result, nil
			case 3:
				if o.result != nil {
					return o.result, nil // a RawMessage that is not valid JSON
				}
				return func() {}, nil
			}
			return nil, o.err
		}
		m := &jmessage{M: name, batch: batchFlag}
		var id json.RawMessage
		if nondetBool("call") {
			id = json.RawMessage(verifValidID("id"))
			for _, prev := range ids {
				if prev != nil {
					assume(!tokSame(prev, id))
				}
			}
			m.ID = id
		}
		ids = append(ids, id)
		batch = append(batch, m)
	}
	s := NewServer(mux, &ServerOptions{Concurrency: 1 + nondetChoice("conc", 2)})
	rec := &verifClockRecorder{}
	s.ch = rec
	s.mu.Lock()
	run := s.dispatchLocked(batch, rec)
	s.mu.Unlock()
	run()
	quiesce()

	ncalls := 0
	for i, o := range outs {
		if o.kind == 5 {
			vassert(o.runs == 0, "C01: no handler runs for an unknown method")
		} else {
			vassert(o.runs == 1, "C01: every well-formed request's handler runs exactly once")
		}
		if ids[i] != nil {
			ncalls++
		}
	}
	if ncalls == 0 {
		vassert(len(rec.sent) == 0, "C01: notifications never produce a response, whatever their handlers return")
		reach("no-output")
		return
	}
	vassert(len(rec.sent) == 1, "C01: the responses of one inbound message are sent together as one outbound message")
	for _, o := range outs {
		if o.kind != 5 {
			vassert(o.exit < rec.sentAt[0], "C01: the reply is sent only after all of the message's handlers have returned")
		}
	}
	out, ok := tokParse(rec.sent[0])
	vassert(ok, "the reply is valid JSON")
	var elems []json.RawMessage
	if batchFlag {
		var isArr bool
		elems, isArr = tokElems(out)
		vassert(isArr, "C01: an array is answered with an array")
	} else {
		vassert(tokKind(out) == tkObject, "C01: a single request is answered with a single object")
		elems = []json.RawMessage{out}
	}
	vassert(len(elems) == ncalls, "C01: exactly one response per call, none per notification")
	k := 0
	for i, o := range outs {
		if ids[i] == nil {
			continue
		}
		obj := elems[k]
		k++
		id, has := tokMember(obj, "id")
		vassert(has && tokSame(id, ids[i]), "C01: responses are in request order, each carrying its call's id")
		res, hasRes := tokMember(obj, "result")
		er, hasErr := tokMember(obj, "error")
		vassert(hasRes != hasErr, "exactly one of result and error")
		switch o.kind {
		case 0:
			vassert(hasRes && tokSame(res, o.result), "C01: the response carries the outcome of this call's handler invocation (result)")
			reach("result")
		case 3:
			vassert(hasErr, "C14: an unmarshalable result becomes an error response")
			reach("unmarshalable")
		default:
			vassert(hasErr, "C01: a handler error becomes an error response")
			code, _ := tokMember(er, "code")
			c, isInt := tokIntValue(code)
			vassert(isInt && Code(c) == o.code, "C01/C14: the error response carries the handler error's code")
			reach("error")
		}
	}
}

func verifWrap(err error) error { return &verifWrapped{err} }

type verifWrapped struct{ inner error }

func (w *verifWrapped) Error() string { return "wrapped" }
func (w *verifWrapped) Unwrap() error { return w.inner }
