//go:build verif

package channel

import (
	"bufio"
	"bytes"
	"io"
)

// verifStream serves a byte stream with a symbolic chunking policy chosen once
// per run: everything at once; uniform 1-, 2- or 3-byte reads; or one cut at a
// symbolic position (first read ends there, the rest follows in one piece).
// The last bytes arrive either together with io.EOF or before a separate
// (0, io.EOF).
type verifStream struct {
	data        []byte
	pos         int
	policy      int
	cut         int
	eofWithData bool
	reads       int
}

func newVerifStream(data []byte) *verifStream { return newVerifStreamN(data, 5) }

// newVerifStreamN restricts the chunking policies to the first n of: all at
// once, 1-byte reads, 2-byte reads, 3-byte reads, one symbolic cut.
func newVerifStreamN(data []byte, n int) *verifStream {
	s := &verifStream{data: data, policy: nondetChoice("chunk-policy", n), eofWithData: nondetBool("eof-with-data")}
	if s.policy == 4 {
		if len(data) < 2 {
			s.policy = 0
		} else {
			s.cut = 1 + nondetChoice("cut", len(data)-1)
		}
	}
	return s
}

func (s *verifStream) Read(p []byte) (int, error) {
	s.reads++
	if s.pos >= len(s.data) {
		return 0, io.EOF
	}
	n := len(s.data) - s.pos
	switch s.policy {
	case 1, 2, 3:
		if n > s.policy {
			n = s.policy
		}
	case 4:
		if s.pos < s.cut {
			n = s.cut - s.pos
		}
	}
	if n > len(p) {
		n = len(p)
	}
	copy(p, s.data[s.pos:s.pos+n])
	s.pos += n
	if s.pos == len(s.data) && s.eofWithData {
		return n, io.EOF
	}
	return n, nil
}

type verifSink struct {
	buf    []byte
	writes int
	closed bool
}

func (w *verifSink) Write(p []byte) (int, error) {
	w.writes++
	w.buf = append(w.buf, p...)
	return len(p), nil
}
func (w *verifSink) Close() error { w.closed = true; return nil }

func verifSplitChan(r io.Reader, w io.WriteCloser) split {
	return verifSplitChanOn('\n', r, w)
}

func verifSplitChanOn(sb byte, r io.Reader, w io.WriteCloser) split {
	return split{split: sb, wc: w, buf: bufio.NewReaderSize(r, 16)}
}

func verifHdrChan(mtype string, r io.Reader, w io.WriteCloser) *hdr {
	ctype := ""
	if mtype != "" {
		ctype = "Content-Type: " + mtype + "\r\n"
	}
	return &hdr{mtype: mtype, ctype: ctype, wc: w, rd: bufio.NewReaderSize(r, 16), buf: bytes.NewBuffer(nil)}
}

func verifRecords(maxRecs, maxLen int, forbid int) [][]byte {
	n := 1 + nondetChoice("nrecords", maxRecs)
	var recs [][]byte
	for i := 0; i < n; i++ {
		r := nondetBytes("record", maxLen)
		if forbid >= 0 {
			for _, b := range r {
				assume(b != byte(forbid))
			}
		}
		recs = append(recs, r)
	}
	return recs
}

func verifSameBytes(a, b []byte) bool {
	if len(a) != len(b) {
		return false
	}
	for i := range a {
		if a[i] != b[i] {
			return false
		}
	}
	return true
}

// Harness_C11_split: records -> real split.Send -> symbolic fragmentation ->
// real bufio (16-byte buffer) -> real split.Recv.
func Harness_C11_split() {
	maxRecs, maxLen := 2, 3
	if thorough() {
		maxRecs = 3
	}
	sb := []byte{'\n', 0xff, 0x00, 0x1e}[nondetChoice("split-byte", 4)]
	recs := verifRecords(maxRecs, maxLen, int(sb))
	if nondetBool("long-record") {
		// one record longer than (or exactly one or two times) the bufio buffer:
		// the ErrBufferFull continuation, with the delimiter alone in a chunk
		n := []int{18, 16, 32, 15, 17}[nondetChoice("long-length", 5)]
		long := make([]byte, n)
		for i := range long {
			long[i] = 'a' + byte(i%26)
		}
		long[n-1] = nondetByte("long-last")
		assume(long[n-1] != sb)
		recs = append(recs, long)
	}
	sink := &verifSink{}
	tx := verifSplitChanOn(sb, nil, sink)
	for _, r := range recs {
		vassert(tx.Send(append([]byte{}, r...)) == nil, "C11: Send accepts a record without the split byte")
	}
	rx := verifSplitChanOn(sb, newVerifStream(sink.buf), nil)
	for _, want := range recs {
		got, err := rx.Recv()
		cp := append([]byte{}, got...)
		vassert(err == nil || (err == io.EOF && len(cp) > 0), "C11: a complete record is received without error")
		vassert(verifSameBytes(cp, want), "C11: records arrive byte for byte and in order, whatever the fragmentation")
	}
	_, err := rx.Recv()
	vassert(err == io.EOF, "C11: io.EOF once the sender has closed")
	_, err = rx.Recv()
	vassert(err != nil, "C11: and it keeps failing")
	reach("roundtrip")
}

// Harness_C11_split_guard: a record containing the split byte is refused and
// nothing is written.
func Harness_C11_split_guard() {
	sb := nondetByte("split-byte") // Split(b) takes any byte, not only '\n'
	r := nondetBytes("record", 3)
	has := false
	for _, b := range r {
		if b == sb {
			has = true
		}
	}
	sink := &verifSink{}
	tx := verifSplitChanOn(sb, nil, sink)
	err := tx.Send(r)
	if has {
		vassert(err != nil && sink.writes == 0 && len(sink.buf) == 0, "C11: Send refuses, writing nothing, a record containing the split byte")
		reach("refused")
	} else {
		vassert(err == nil && len(sink.buf) == len(r)+1, "C11: a representable record is written with its delimiter")
		vassert(sink.buf[len(r)] == sb, "C11: the delimiter is the split byte")
		reach("accepted")
	}
}

// Harness_C11_hdr: the same round trip for the header framings.
func Harness_C11_hdr() {
	mtypes := []string{"", "a/b"}
	mt := mtypes[nondetChoice("mtype", 2)]
	optional := nondetBool("optional-content-type") // Header()/LSP wrap hdr in opthdr
	recs := verifRecords(2, 3, -1)
	if nondetBool("long-record") {
		long := make([]byte, 20)
		for i := range long {
			long[i] = 'A' + byte(i)
		}
		long[3] = nondetByte("long-byte")
		recs = append(recs, long)
	}
	sink := &verifSink{}
	tx := verifHdrChan(mt, nil, sink)
	for _, r := range recs {
		vassert(tx.Send(append([]byte{}, r...)) == nil, "C11: Send accepts every record")
	}
	h := verifHdrChan(mt, newVerifStream(sink.buf), nil)
	var rx Channel = h
	if optional {
		rx = opthdr{h}
	}
	for _, want := range recs {
		got, err := rx.Recv()
		cp := append([]byte{}, got...)
		vassert(err == nil, "C11: a complete record is received without error")
		vassert(verifSameBytes(cp, want), "C11: records arrive byte for byte and in order, whatever the fragmentation")
	}
	_, err := rx.Recv()
	vassert(err == io.EOF, "C11: io.EOF once the sender has closed")
	_, err = rx.Recv()
	vassert(err != nil, "C11: and it keeps failing")
	reach("roundtrip")
}

// Harness_C12_split: an arbitrary byte stream; reference: the records are the
// '\n'-terminated lines; an unterminated tail is reported whole, with an error.
func Harness_C12_split() {
	max := 4
	if thorough() {
		max = 6
	}
	data := nondetBytes("stream", max)
	if nondetBool("buffer-sized-prefix") {
		// the stream starts with exactly one bufio buffer of payload, so that a
		// delimiter can arrive alone in its own chunk
		pre := make([]byte, 16)
		for i := range pre {
			pre[i] = 'a' + byte(i)
		}
		data = append(pre, data...)
	}
	rx := verifSplitChan(newVerifStream(data), nil)
	start := 0
	for i := 0; i < len(data); i++ {
		if data[i] != '\n' {
			continue
		}
		got, err := rx.Recv()
		cp := append([]byte{}, got...)
		vassert(err == nil, "C12: a terminated line is a record")
		vassert(verifSameBytes(cp, data[start:i]), "C12: the record is exactly the line, nothing fabricated, reordered or shortened")
		start = i + 1
		reach("line")
	}
	got, err := rx.Recv()
	cp := append([]byte{}, got...)
	vassert(err != nil, "C12: end of stream is an error")
	if start < len(data) {
		vassert(verifSameBytes(cp, data[start:]) || len(cp) == 0, "C12: a final record cut off by end of stream is never silently shortened")
		reach("cut-off-tail")
	} else {
		vassert(len(cp) == 0, "C12: nothing is fabricated at end of stream")
	}
	got, err = rx.Recv()
	vassert(err != nil && len(got) == 0, "C12: once exhausted the stream keeps failing")
	reach("exhausted")
}

// Harness_C11_direct: the in-memory Direct framing: a pipelined sequence of
// records (nil, empty or short, every byte symbolic) written by one goroutine
// arrives unchanged and in order, followed by io.EOF once the sender closed;
// after that, sending on the closed side is an error, not a panic.
func Harness_C11_direct() {
	maxn := 3
	if thorough() {
		maxn = 4
	}
	n := 1 + nondetChoice("nrecords", maxn)
	var recs [][]byte
	for i := 0; i < n; i++ {
		switch nondetChoice("record-shape", 3) {
		case 0:
			recs = append(recs, nil)
		case 1:
			recs = append(recs, []byte{})
		case 2:
			recs = append(recs, nondetBytes("record", 2))
		}
	}
	tx, rx := Direct()
	sent := false
	go func() {
		for _, r := range recs {
			vassert(tx.Send(r) == nil, "C11: Direct accepts every record")
		}
		tx.Close()
		sent = true
	}()
	for _, want := range recs {
		got, err := rx.Recv()
		vassert(err == nil, "C11: Direct: a record sent before the close is received without error (also a nil or empty one)")
		vassert(verifSameBytes(got, want), "C11: Direct: records arrive byte for byte and in order")
	}
	_, err := rx.Recv()
	vassert(err == io.EOF, "C11: Direct: io.EOF once the sender has closed")
	_, err = rx.Recv()
	vassert(err == io.EOF, "C11: Direct: and it keeps reporting it")
	quiesce()
	vassert(sent, "the sender finished")
	vassert(tx.Send([]byte("x")) != nil, "C11: Direct: sending after Close is an error, not a panic")
	reach("direct")
}
