//go:build verif

package channel

import (
	"io"
)

// verifCased spells a field name with a symbolic upper/lower case choice per
// letter (no path split: the case bit is data).
func verifCased(lower string) []byte {
	out := make([]byte, len(lower))
	for i := 0; i < len(lower); i++ {
		c := lower[i]
		if c >= 'a' && c <= 'z' {
			up := nondetByte("case") & 1
			c = c - 32*up
		}
		out[i] = c
	}
	return out
}

// verifRefAtoi: reference for "decimal integer" as strconv.Atoi defines it.
func verifRefAtoi(s []byte) (int, bool) {
	i := 0
	neg := false
	if i < len(s) && (s[i] == '+' || s[i] == '-') {
		neg = s[i] == '-'
		i++
	}
	if i >= len(s) {
		return 0, false
	}
	n := 0
	for ; i < len(s); i++ {
		if s[i] < '0' || s[i] > '9' {
			return 0, false
		}
		n = n*10 + int(s[i]-'0')
	}
	if neg {
		n = -n
	}
	return n, true
}

func verifIsSpace(b byte) bool {
	return b == ' ' || b == '\t' || b == '\n' || b == '\r' || b == '\v' || b == '\f'
}

// Harness_C12_hdr: an adversarial header-framed stream built from a symbolic
// grammar; the first Recv is compared with a reference decoder written from
// the package documentation; then the stream is drained.
func Harness_C12_hdr() {
	mtypes := []string{"a/b", ""}
	mt := mtypes[0]
	optional := nondetBool("optional-content-type")
	crlf := nondetBool("crlf")
	eol := func(line []byte) []byte {
		if crlf {
			line = append(line, '\r')
		}
		return append(line, '\n')
	}
	name := func(lower string) []byte {
		if lower == "content-type" {
			return []byte("Content-Type")
		}
		switch nondetChoice("case-"+lower, 2) {
		case 0:
			return []byte(lower)
		case 1: // Canonical-Form
			out := []byte(lower)
			out[0] -= 32
			for i := 1; i < len(out); i++ {
				if out[i-1] == '-' {
					out[i] -= 32
				}
			}
			return out
		}
		out := []byte(lower)
		for i := range out {
			if out[i] >= 'a' && out[i] <= 'z' {
				out[i] -= 32
			}
		}
		return out
	}

	var stream []byte
	haveLen, lenOK := false, false
	size := 0
	gotType := ""
	badLine := false
	// optional content-type line
	switch nondetChoice("type-line", 3) {
	case 1:
		stream = append(stream, eol(append(append(name("content-type"), ':', ' '), "a/b"...))...)
		gotType = "a/b"
	case 2:
		stream = append(stream, eol(append(append(name("content-type"), ':'), "x/y"...))...)
		gotType = "x/y"
	}
	// optional unknown field or a line that is not a header line
	other := 2 * nondetChoice("other-line", 2)
	if thorough() {
		other = nondetChoice("other-line3", 3) // adds the unknown-field line
	}
	switch other {
	case 1:
		stream = append(stream, eol([]byte("X-Other: 1"))...)
	case 2:
		stream = append(stream, eol([]byte("garbage"))...)
		badLine = true
	}
	// optional content-length line (after a bad line nothing more is read)
	if !badLine && nondetBool("length-line") {
		line := append(name("content-length"), ':')
		ows := nondetBool("ows")
		if ows {
			line = append(line, ' ')
		}
		// the value: any 0..2 bytes, or one of the spellings that other number
		// syntaxes accept and a decimal Content-Length must not
		var val []byte
		if nondetBool("odd-spelling") {
			odd := []string{"0x1", "0X2", "0b1", "0o2", "1_0", "010", "1e1", "1.0", "+-1", "0x"}
			val = []byte(odd[nondetChoice("which-spelling", len(odd))])
		} else {
			val = nondetBytes("length-value", 2)
		}
		for _, b := range val {
			assume(!verifIsSpace(b)) // surrounding white space is the ows bits' job
		}
		line = append(line, val...)
		if ows {
			line = append(line, ' ')
		}
		stream = append(stream, eol(line)...)
		haveLen = len(val) > 0
		size, lenOK = verifRefAtoi(val)
		if lenOK && size < 0 {
			lenOK = false
		}
		if lenOK {
			assume(size <= 3) // bodies are at most 3 bytes here; larger lengths: Harness_C12_hdr_size
		}
	}
	blank := nondetChoice("blank", 3) // 0: CRLF, 1: LF, 2: missing
	switch blank {
	case 0:
		stream = append(stream, '\r', '\n')
	case 1:
		stream = append(stream, '\n')
	}
	if blank == 2 && len(stream) > 0 && nondetBool("cut-in-last-line") {
		// the stream ends inside the header block, on a line without its
		// terminator (one or both bytes of the line end are missing)
		stream = stream[:len(stream)-1]
		if crlf && nondetBool("cut-cr-too") {
			stream = stream[:len(stream)-1]
		}
	}
	bodyLen := 2
	body := make([]byte, bodyLen)
	for i := range body {
		body[i] = nondetByte("body")
	}
	if blank != 2 {
		stream = append(stream, body...)
	}

	npol := 1
	if thorough() {
		npol = 2
	}
	h := verifHdrChan(mt, newVerifStreamN(stream, npol), nil)
	var rx Channel = h
	if optional {
		rx = opthdr{h}
	}
	got, err := rx.Recv()
	data := append([]byte{}, got...)

	headerComplete := blank != 2 && !badLine
	switch {
	case !headerComplete:
		vassert(err != nil && len(data) == 0, "C12: an incomplete or malformed header is an error, no payload is fabricated")
		reach("bad-header")
	case !haveLen || !lenOK:
		vassert(err != nil && len(data) == 0, "C12: Content-Length is required and must be a non-negative decimal")
		reach("bad-length")
	case size > len(body):
		vassert(err != nil && len(data) == 0, "C12: a body cut off by end of stream is an error, never a shortened record")
		reach("short-body")
	default:
		typeOK := gotType == mt || (optional && gotType == "")
		if typeOK {
			vassert(err == nil, "C12: a well-formed record is received")
		} else {
			_, mismatch := err.(*ContentTypeMismatchError)
			vassert(mismatch, "C12: a content-type mismatch is reported as such")
		}
		vassert(verifSameBytes(data, body[:size]), "C12: the payload is exactly the next Content-Length bytes")
		reach("record")
	}
	// drain: Recv terminates and, once the stream is exhausted, keeps failing
	// (left-over body bytes would be parsed as the next header: arbitrary
	// bytes through the header parser are Harness_C12_hdr_raw's subject)
	bodyConsumed := len(body) == 0 || blank == 2 || (headerComplete && haveLen && lenOK && size >= len(body))
	if !bodyConsumed {
		return
	}
	for i := 0; i < 6 && err == nil; i++ {
		_, err = rx.Recv()
		if _, mismatch := err.(*ContentTypeMismatchError); mismatch {
			err = nil
		}
	}
	vassert(err != nil, "C12: the stream is finite: Recv eventually fails")
	_, err = rx.Recv()
	vassert(err != nil, "C12: and keeps failing")
	reach("drained")
}

var _ = io.EOF

// Harness_C12_hdr_raw: a short, fully arbitrary byte stream (too short to hold
// any valid record): every Recv terminates without panicking and fails.
func Harness_C12_hdr_raw() {
	max := 4
	if thorough() {
		max = 6
	}
	stream := nondetBytes("raw", max)
	h := verifHdrChan("", newVerifStreamN(stream, 2), nil)
	var rx Channel = h
	if nondetBool("optional-content-type") {
		rx = opthdr{h}
	}
	for i := 0; i < 3; i++ {
		got, err := rx.Recv()
		vassert(err != nil && len(got) == 0, "C12: a stream that holds no complete record yields only errors, no fabricated payload")
	}
	reach("raw-done")
}
