//go:build verif

package channel

import (
	"bufio"
	"bytes"
	"io"
	"strconv"
	"strings"
)

// Harness_C12_hdr_size: Content-Length is an arbitrary non-negative int; the
// header lines are handed to the real hdr.Recv line by line (bufio.ReadString
// is redirected to a script so that the length can stay symbolic), the body is
// missing.  Property: Recv returns an error and does not panic.
func Harness_C12_hdr_size() {
	n := nondetInt("size")
	assume(n >= 0)
	// engine bound: buffers of 4..32768 bytes are not allocated symbolically
	// (the engine would have to enumerate each length); they are covered with
	// concrete contents by the C11/C12 stream harnesses.
	assume(n <= 3 || n > 1<<15)
	digits := strconv.Itoa(n)
	prev := nondetChoice("prevlen", 3) // length class of the receive buffer left by an earlier record
	h := &hdr{mtype: "", buf: bytes.NewBuffer(nil)}
	switch prev {
	case 1:
		h.rbuf = make([]byte, 8)
	case 2:
		h.rbuf = make([]byte, 64)
	}
	stream := "Content-Length: " + digits + "\r\n\r\n"
	if inEngine() {
		lines := []string{"Content-Length: " + digits + "\r\n", "\r\n"}
		verifRedirect("(*bufio.Reader).ReadString", func(r *bufio.Reader, delim byte) (string, error) {
			if len(lines) == 0 {
				return "", io.EOF
			}
			l := lines[0]
			lines = lines[1:]
			return l, nil
		})
		verifRedirect("io.ReadFull", func(r io.Reader, buf []byte) (int, error) {
			if len(buf) == 0 {
				return 0, nil
			}
			return 0, io.EOF
		})
		verifRedirect("io.CopyN", func(dst io.Writer, src io.Reader, n int64) (int64, error) {
			if n == 0 {
				return 0, nil
			}
			return 0, io.EOF
		})
		h.rd = bufio.NewReaderSize(strings.NewReader(""), 16)
	} else {
		h.rd = bufio.NewReader(strings.NewReader(stream))
	}
	data, err := h.Recv()
	reach("recv-returned")
	if n > 0 {
		vassert(err != nil, "a record whose body is missing must be an error")
	} else {
		vassert(err == nil && len(data) == 0, "empty record")
	}
}
