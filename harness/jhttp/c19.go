//go:build verif

package jhttp

import (
	"encoding/json"
	"net/http"
	"net/url"
	"strings"
)

var verifAlphabet = []byte{'"', '\'', '+', '-', '0', '1', '.', 'e', 'x', '_', 'n', 'a', 'i', 'f'}

// verifQueryValue: a query value over the alphabet the property names, or one
// of the literal words in a symbolic letter case.
func verifQueryValue() string {
	if nondetBool("word") {
		words := []string{"true", "false", "null", "inf", "nan", "infinity", "-inf", "+inf"}
		w := []byte(words[nondetChoice("which-word", len(words))])
		if nondetBool("upper") {
			for i := range w {
				if w[i] >= 'a' && w[i] <= 'z' {
					w[i] -= 32
				}
			}
		} else if nondetBool("title") && w[0] >= 'a' {
			w[0] -= 32
		}
		return string(w)
	}
	max := 3 // 14^3 values; 4 bytes (38k values x typing paths) did not finish in 15 minutes
	v := nondetBytes("value", max)
	for _, b := range v {
		in := false
		for _, a := range verifAlphabet {
			if b == a {
				in = true
			}
		}
		assume(in)
	}
	return string(v)
}

// verifIsDocNumber: optionally signed decimal digits with optional fraction.
func verifIsDocNumber(s string) bool {
	i := 0
	if i < len(s) && (s[i] == '+' || s[i] == '-') {
		i++
	}
	d := 0
	for i < len(s) && s[i] >= '0' && s[i] <= '9' {
		i++
		d++
	}
	if d == 0 {
		return false
	}
	if i < len(s) && s[i] == '.' {
		i++
		f := 0
		for i < len(s) && s[i] >= '0' && s[i] <= '9' {
			i++
			f++
		}
		if f == 0 {
			return false
		}
	}
	return i == len(s)
}

// Harness_C19_query: ParseQuery and ParseBasic on one path and one value.
func Harness_C19_query() { verifC19(false) }

// Harness_C19_path: the method is the path trimmed of slashes, for every path.
func Harness_C19_path() { verifC19(true) }

func verifC19(pathMode bool) {
	path := "/m/"
	val := "1"
	if pathMode {
		path = nondetString("path", 4)
	} else {
		val = verifQueryValue()
	}
	req := &http.Request{URL: &url.URL{Path: path}, Form: url.Values{"k": []string{val}}}
	basic := nondetBool("basic")
	var method string
	var params any
	var err error
	if basic {
		method, params, err = ParseBasic(req)
	} else {
		method, params, err = ParseQuery(req)
	}
	reach("returned")
	if err != nil {
		return // an error is an acceptable answer (400); no panic happened
	}
	vassert(method != "", "C19: the method is never empty")
	vassert(method == strings.Trim(path, "/"), "C19: the method is the path trimmed of slashes")
	_, merr := json.Marshal(params)
	vassert(merr == nil, "C19: the parameters are always JSON-marshalable")
	if basic {
		m := params.(map[string]string)
		vassert(len(m) == 1 && m["k"] == val, "C19: ParseBasic passes values through as strings")
		return
	}
	m := params.(map[string]any)
	got, has := m["k"]
	vassert(has && len(m) == 1, "C19: one parameter per query key")
	switch {
	case val == "true":
		vassert(got == true, "C19: true is the constant")
	case val == "false":
		vassert(got == false, "C19: false is the constant")
	case val == "null":
		vassert(got == nil, "C19: null is the constant")
	case verifIsDocNumber(val):
		_, isInt := got.(int64)
		_, isFloat := got.(float64)
		vassert(isInt || isFloat, "C19: an optionally signed decimal with optional fraction is a number")
		reach("number")
	case len(val) >= 2 && val[0] == '"' && val[len(val)-1] == '"':
		_, isStr := got.(string)
		vassert(isStr, "C19: a double-quoted value is a string")
		reach("quoted")
	case len(val) >= 2 && val[0] == '\'' && val[len(val)-1] == '\'':
		_, isBytes := got.([]byte)
		vassert(isBytes, "C19: a single-quoted value is bytes")
		reach("bytes")
	default:
		// anything else is the literal string, or (liberal typing, reported
		// but tolerated) a finite number in a spelling strconv accepts
		s, isStr := got.(string)
		_, isInt := got.(int64)
		_, isFloat := got.(float64)
		vassert((isStr && s == val) || isInt || isFloat, "C19: any other value is the literal string (or a finite number)")
		if isStr {
			reach("literal")
		} else {
			reach("liberal-number")
		}
	}
}
