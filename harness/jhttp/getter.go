//go:build verif

package jhttp

import (
	"context"
	"errors"
	"net/http"
	"net/url"

	"github.com/creachadair/jrpc2"
)

type verifWriter struct {
	hdr    http.Header
	status int
	body   []byte
	writes int
}

func (w *verifWriter) Header() http.Header {
	if w.hdr == nil {
		w.hdr = http.Header{}
	}
	return w.hdr
}
func (w *verifWriter) Write(b []byte) (int, error) {
	if w.status == 0 {
		w.status = 200
	}
	w.writes++
	w.body = append(w.body, b...)
	return len(b), nil
}
func (w *verifWriter) WriteHeader(code int) {
	if w.status == 0 {
		w.status = code
	}
}

type verifAssign map[string]jrpc2.Handler

func (m verifAssign) Assign(_ context.Context, method string) jrpc2.Handler { return m[method] }

// Harness_C19_getter: status mapping and JSON body of Getter.ServeHTTP.
func Harness_C19_getter() {
	verifMapOrders(false)
	calls := 0
	failCode := jrpc2.Code(nondetInt32("failcode"))
	assume(failCode != jrpc2.NoError)
	mux := verifAssign{
		"ok": func(context.Context, *jrpc2.Request) (any, error) { calls++; return "fine", nil },
		"fail": func(context.Context, *jrpc2.Request) (any, error) {
			calls++
			return nil, jrpc2.Errorf(failCode, "handler failed")
		},
	}
	which := nondetChoice("request", 4)
	g := NewGetter(mux, &GetterOptions{ParseRequest: func(*http.Request) (string, any, error) {
		switch which {
		case 0:
			return "", nil, errors.New("cannot parse URL")
		case 1:
			return "ok", nil, nil
		case 2:
			return "fail", nil, nil
		}
		return "nosuch", nil, nil
	}})
	w := &verifWriter{}
	g.ServeHTTP(w, &http.Request{URL: &url.URL{Path: "/x"}})
	_, valid := tokParse(w.body)
	vassert(valid, "C19: the body is always valid JSON")
	switch which {
	case 0:
		vassert(w.status == 400 && calls == 0, "C19: an unparsable URL is answered 400 without a call")
		reach("400")
	case 1:
		vassert(w.status == 200 && calls == 1, "C19: success is answered 200 with the result")
		reach("200")
	case 2:
		if failCode == jrpc2.MethodNotFound {
			vassert(w.status == 404, "C19: method-not-found is 404")
		} else {
			vassert(w.status == 500, "C19: any other failure is 500")
		}
		vassert(calls == 1, "C19: one call per HTTP request")
		reach("500")
	case 3:
		vassert(w.status == 404 && calls == 0, "C19: an unknown method is answered 404")
		reach("404")
	}
	g.Close()
}
