//go:build verif

package jhttp

import (
	"context"
	"encoding/json"
	"errors"
	"io"
	"net/http"
	"strconv"

	"github.com/creachadair/jrpc2"
)

// verifRespBody is an HTTP response body that counts Close calls.
type verifRespBody struct {
	data   []byte
	pos    int
	closed *int
	opened *int
}

func (b *verifRespBody) Read(p []byte) (int, error) {
	if b.pos >= len(b.data) {
		return 0, io.EOF
	}
	n := copy(p, b.data[b.pos:])
	b.pos += n
	return n, nil
}
func (b *verifRespBody) Close() error              { *b.closed++; return nil }
func (b *verifRespBody) VerifAll() ([]byte, error) { return b.data[b.pos:], nil }

// verifBridgeClient is an in-process HTTPClient: Do calls Bridge.ServeHTTP.
type verifBridgeClient struct {
	b        Bridge
	opened   int
	closed   int
	failNext bool
	status   int // non-zero: the next request is answered with this status by a front end, not by the bridge
}

func (c *verifBridgeClient) Do(req *http.Request) (*http.Response, error) {
	if c.failNext {
		c.failNext = false
		return nil, errors.New("transport failure")
	}
	if c.status != 0 {
		st := c.status
		c.status = 0
		c.opened++
		return &http.Response{StatusCode: st, Status: strconv.Itoa(st),
			Body: &verifRespBody{data: []byte("front end error"), closed: &c.closed, opened: &c.opened}}, nil
	}
	w := &verifWriter{}
	c.b.ServeHTTP(w, req)
	if w.status == 0 {
		w.status = 200
	}
	c.opened++
	return &http.Response{StatusCode: w.status, Status: strconv.Itoa(w.status),
		Body: &verifRespBody{data: w.body, closed: &c.closed, opened: &c.opened}}, nil
}

// Harness_C19_channel: a real Client over the real jhttp.Channel against a
// real Bridge (in-process HTTP client).  Results equal a direct connection;
// after Close no request goroutine is left and every response body is closed.
func Harness_C19_channel() {
	verifMapOrders(false)
	calls := 0
	bridge := NewBridge(verifEchoMux(&calls), nil)
	hc := &verifBridgeClient{b: bridge}
	ch := NewChannel("http://bridge/", &ChannelOptions{Client: hc})
	cli := jrpc2.NewClient(ch, nil)

	arg := nondetToken("arg")
	assume(tokKind(arg) != tkInvalid)
	params := tokArray([]json.RawMessage{arg})
	switch nondetChoice("workload", 6) {
	case 5: // the HTTP exchange succeeds but with an error status (proxy, closed bridge, ...)
		st := nondetInt("http-status")
		assume(st >= 100 && st <= 599 && st != 200 && st != 204)
		hc.status = st
		_, err := cli.Call(context.Background(), "echo", params)
		vassert(err != nil, "C19: an HTTP error status ends the call with an error")
		vassert(calls == 0, "no handler ran")
		reach("http-status")
	case 4: // a request is still in flight when the channel is closed
		raw := tokObject([]string{"jsonrpc", "id", "method", "params"}, []json.RawMessage{tokString("2.0"), tokLit("1"), tokString("echo"), params})
		if nondetBool("in-flight-notification") {
			raw = tokObject([]string{"jsonrpc", "method", "params"}, []json.RawMessage{tokString("2.0"), tokString("echo"), params})
		}
		direct := NewChannel("http://bridge/", &ChannelOptions{Client: hc})
		vassert(direct.Send(raw) == nil, "Send accepts the request")
		direct.Close()
		vassert(liveThreadsNow("channel.go", "jhttp.(*Channel)") == "", "C19: when Close returns no request goroutine is left behind")
		quiesce()
		vassert(hc.closed == hc.opened, "C19: no HTTP response body is left unclosed, also for a response that nobody received")
		reach("close-in-flight")
	case 0: // a call
		var got json.RawMessage
		err := cli.CallResult(context.Background(), "echo", params, &got)
		vassert(err == nil && tokSame(got, params), "C19: a call over the HTTP channel observes the same result as over a direct connection")
		reach("call")
	case 1: // a notification (the bridge answers 204; nothing to receive)
		err := cli.Notify(context.Background(), "echo", params)
		vassert(err == nil, "C19: a notification over the HTTP channel is sent")
		quiesce()
		vassert(calls == 1, "C19: ... and handled")
		reach("notify")
	case 2: // a batch with a notification in it
		rsps, err := cli.Batch(context.Background(), []jrpc2.Spec{
			{Method: "echo", Params: params},
			{Method: "echo", Params: params, Notify: true},
			{Method: "nosuch"},
		})
		vassert(err == nil && len(rsps) == 2, "C19: a batch returns one response per call")
		var got json.RawMessage
		vassert(rsps[0].UnmarshalResult(&got) == nil && tokSame(got, params), "C19: first call's result")
		vassert(rsps[1].Error() != nil && rsps[1].Error().Code == jrpc2.MethodNotFound, "C19: second call's error")
		reach("batch")
	case 3: // the HTTP round trip itself fails
		hc.failNext = true
		_, err := cli.Call(context.Background(), "echo", params)
		vassert(err != nil, "C19: an HTTP failure ends the call with an error")
		reach("http-failure")
	}
	cli.Close()
	quiesce()
	vassert(hc.closed == hc.opened, "C19: no HTTP response body is left unclosed")
	bridge.Close()
	quiesce()
	vassert(liveThreads() == "", "C19: closing the channel leaves no request goroutine behind")
	reach("closed")
}
