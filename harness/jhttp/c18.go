//go:build verif

package jhttp

import (
	"context"
	"encoding/json"
	"io"
	"net/http"
	"strconv"

	"github.com/creachadair/jrpc2"
)

type verifBody struct {
	data []byte
	pos  int
}

func (b *verifBody) Read(p []byte) (int, error) {
	if b.pos >= len(b.data) {
		return 0, io.EOF
	}
	n := copy(p, b.data[b.pos:])
	b.pos += n
	return n, nil
}
func (b *verifBody) Close() error              { return nil }
func (b *verifBody) VerifAll() ([]byte, error) { return b.data, nil }

type verifBMember struct {
	raw     json.RawMessage
	class   int // 0 call, 1 notification, 2 invalid with id, 3 invalid without id, 4 request and reply fields mixed (with id)
	id      json.RawMessage
	params  json.RawMessage
	respond bool
}

func verifBridgeMember(tag string) *verifBMember {
	m := &verifBMember{class: nondetChoice(tag+".class", 5)}
	ver := tokString("2.0")
	if m.class == 0 || m.class == 2 || m.class == 4 {
		m.id = nondetToken(tag + ".id")
		k := tokKind(m.id)
		assume(k == tkNumber || k == tkString)
	}
	arg := nondetToken(tag + ".arg")
	assume(tokKind(arg) != tkInvalid)
	m.params = tokArray([]json.RawMessage{arg})
	switch m.class {
	case 0:
		m.raw = tokObject([]string{"jsonrpc", "id", "method", "params"}, []json.RawMessage{ver, m.id, tokString("echo"), m.params})
		m.respond = true
	case 1:
		m.raw = tokObject([]string{"jsonrpc", "method", "params"}, []json.RawMessage{ver, tokString("echo"), m.params})
	case 2:
		// statically invalid, but with a usable id: params is a string
		m.raw = tokObject([]string{"jsonrpc", "id", "method", "params"}, []json.RawMessage{ver, m.id, tokString("echo"), tokString("oops")})
		m.respond = true
	case 3:
		m.raw = tokObject([]string{"jsonrpc", "method"}, []json.RawMessage{tokString("1.0"), tokString("echo")})
		m.respond = true
	case 4:
		// statically invalid: a request that also carries a reply field
		extra, val := "result", tokLit("5")
		if nondetBool(tag + ".mixed-error") {
			extra, val = "error", tokObject([]string{"code", "message"}, []json.RawMessage{tokLit("1"), tokString("x")})
		}
		m.raw = tokObject([]string{"jsonrpc", "id", "method", "params", extra}, []json.RawMessage{ver, m.id, tokString("echo"), m.params, val})
		m.respond = true
	}
	return m
}

// verifCheckBridgeBody compares a response body with the members it answers.
func verifCheckBridgeBody(w *verifWriter, ms []*verifBMember) {
	var exp []*verifBMember
	for _, m := range ms {
		if m.class == 2 || m.class == 3 || m.class == 4 {
			exp = append(exp, m) // static errors are emitted first, in order
		}
	}
	for _, m := range ms {
		if m.class == 0 {
			exp = append(exp, m)
		}
	}
	if len(exp) == 0 {
		vassert(w.status == 204 && len(w.body) == 0, "C18: only notifications: 204 with an empty body")
		reach("204")
		return
	}
	vassert(w.status == 200, "C18: at least one response object: 200")
	out, ok := tokParse(w.body)
	vassert(ok, "C18: the body is valid JSON")
	var elems []json.RawMessage
	if len(exp) == 1 {
		vassert(tokKind(out) == tkObject, "C18: a single response is a single object")
		elems = []json.RawMessage{out}
		reach("single")
	} else {
		var isArr bool
		elems, isArr = tokElems(out)
		vassert(isArr && len(elems) == len(exp), "C18: several responses are an array with one element each")
		reach("array")
	}
	for i, m := range exp {
		id, _ := tokMember(elems[i], "id")
		res, hasRes := tokMember(elems[i], "result")
		_, hasErr := tokMember(elems[i], "error")
		switch m.class {
		case 0:
			vassert(tokSame(id, m.id), "C18: each response bears the caller's original id text")
			vassert(hasRes && !hasErr && tokSame(res, m.params), "C18: ... and is the response to that very call")
		case 2, 4:
			vassert(tokSame(id, m.id) && hasErr, "C18: a statically invalid member is answered with its own error object and id")
		case 3:
			vassert(tokKind(id) == tkNull && hasErr, "C18: an unidentifiable invalid member is answered with id null")
		}
	}
}

func verifEchoMux(calls *int) verifAssign {
	return verifAssign{"echo": func(_ context.Context, req *jrpc2.Request) (any, error) {
		*calls++
		var p json.RawMessage
		req.UnmarshalParams(&p)
		return p, nil
	}}
}

// verifGatedEchoMux: like verifEchoMux, with a "slow" method that waits for gate.
func verifGatedEchoMux(calls *int, gate chan struct{}) verifAssign {
	m := verifEchoMux(calls)
	echo := m["echo"]
	m["slow"] = func(ctx context.Context, req *jrpc2.Request) (any, error) {
		<-gate
		return echo(ctx, req)
	}
	return m
}

// Harness_C18_bridge: one HTTP request through Bridge.ServeHTTP.
func Harness_C18_bridge() {
	verifMapOrders(false)
	calls := 0
	b := NewBridge(verifEchoMux(&calls), nil)
	methods := []string{"POST", "GET", "PUT"}
	ctypes := []string{"application/json", "application/json; charset=utf-8", "application/json; charset=latin1", "text/plain", ""}
	hm := methods[nondetChoice("http-method", 3)]
	ct := ctypes[nondetChoice("content-type", 5)]
	max := 2
	if thorough() {
		max = 3
	}
	n := 1
	gated := hm != "POST" || (ct != "application/json" && ct != "application/json; charset=utf-8")
	if !gated {
		n = 1 + nondetChoice("members", max)
	}
	batch := n > 1 || (!gated && nondetBool("array-of-one"))
	var ms []*verifBMember
	var raws []json.RawMessage
	for i := 0; i < n; i++ {
		m := verifBridgeMember("m" + strconv.Itoa(i))
		ms = append(ms, m)
		raws = append(raws, m.raw)
	}
	var body json.RawMessage
	badJSON := !gated && nondetBool("bad-json")
	switch {
	case badJSON:
		body = nondetToken("garbage")
		assume(tokKind(body) == tkInvalid)
	case batch:
		body = tokArray(raws)
	default:
		body = raws[0]
	}
	w := &verifWriter{}
	hdr := http.Header{}
	if ct != "" {
		hdr.Set("Content-Type", ct)
	}
	b.ServeHTTP(w, &http.Request{Method: hm, Header: hdr, Body: &verifBody{data: body}})
	quiesce() // notifications are handled asynchronously
	valid := 0
	for _, m := range ms {
		if m.class == 0 || m.class == 1 {
			valid++
		}
	}
	switch {
	case hm != "POST":
		vassert(w.status == 405 && calls == 0, "C18: non-POST methods get 405 and run no handler")
		reach("405")
	case ct != "application/json" && ct != "application/json; charset=utf-8":
		vassert(w.status == 415 && calls == 0, "C18: non-JSON or non-UTF-8 content types get 415 and run no handler")
		reach("415")
	case badJSON:
		vassert(w.status >= 400 && calls == 0, "C18: a body that is not valid JSON gets an error status and runs no handler")
		reach("bad-json")
	default:
		vassert(calls == valid, "C18: every valid request runs its handler exactly once; invalid members reach no handler")
		verifCheckBridgeBody(w, ms)
	}
	b.Close()
}

// Harness_C18_concurrent: two HTTP callers share one bridge and use the same
// id for different calls.
func Harness_C18_concurrent() {
	verifMapOrders(false)
	calls := 0
	gate := make(chan struct{})
	b := NewBridge(verifGatedEchoMux(&calls, gate), nil)
	// the shared id is arbitrary, or collides with the small integers the
	// bridge's own client uses internally
	var id json.RawMessage
	switch nondetChoice("id-form", 3) {
	case 0:
		id = nondetToken("shared-id")
		k := tokKind(id)
		assume(k == tkNumber || k == tkString)
	case 1:
		id = tokLit("1")
	case 2:
		id = tokLit("2")
	}
	mk := func(tag, method string) *verifBMember {
		m := &verifBMember{class: 0, id: id, params: tokArray([]json.RawMessage{tokString(tag)}), respond: true}
		m.raw = tokObject([]string{"jsonrpc", "id", "method", "params"}, []json.RawMessage{tokString("2.0"), id, tokString(method), m.params})
		return m
	}
	m1, m2 := mk("first", "echo"), mk("second", "slow")
	// the slow caller's record may be a batch whose call is preceded by a
	// notification (the bridge's internal ids must not depend on positions)
	notes := 0
	body2 := m2.raw
	if nondetBool("slow-batch-with-leading-notification") {
		note := tokObject([]string{"jsonrpc", "method", "params"}, []json.RawMessage{tokString("2.0"), tokString("echo"), tokArray(nil)})
		body2 = tokArray([]json.RawMessage{note, m2.raw})
		notes = 1
	}
	w1, w2 := &verifWriter{}, &verifWriter{}
	serve := func(w *verifWriter, m *verifBMember) {
		hdr := http.Header{}
		hdr.Set("Content-Type", "application/json")
		body := m.raw
		if m == m2 {
			body = body2
		}
		b.ServeHTTP(w, &http.Request{Method: "POST", Header: hdr, Body: &verifBody{data: body}})
	}
	done := 0
	// the slow caller is in flight while the fast one is served completely
	if nondetBool("slow-first") {
		go func() { serve(w2, m2); done++ }()
		quiesce()
		go func() { serve(w1, m1); done++ }()
	} else {
		go func() { serve(w1, m1); done++ }()
		go func() { serve(w2, m2); done++ }()
	}
	quiesce()
	close(gate)
	quiesce()
	vassert(done == 2 && calls == 2+notes, "both callers are served, each handler once")
	verifCheckBridgeBody(w1, []*verifBMember{m1})
	verifCheckBridgeBody(w2, []*verifBMember{m2})
	reach("concurrent")
	b.Close()
}
